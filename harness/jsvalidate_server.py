"""Independent JSON-Schema validator, run under python3-vt (jsonschema lives there, not in /venv).
Protocol: one JSON object per line on stdin {"schema":..., "instances":[...]} ->
one line on stdout {"wellformed": bool, "error": str|null, "valid": [bool...]}."""
import json
import sys

import jsonschema

for line in sys.stdin:
    req = json.loads(line)
    out = {"wellformed": True, "error": None, "valid": []}
    try:
        jsonschema.Draft7Validator.check_schema(req["schema"])
    except Exception as e:  # noqa
        out["wellformed"] = False
        out["error"] = str(e)[:300]
    if out["wellformed"]:
        v = jsonschema.Draft7Validator(req["schema"])
        for inst in req["instances"]:
            out["valid"].append(v.is_valid(inst))
    sys.stdout.write(json.dumps(out) + "\n")
    sys.stdout.flush()
