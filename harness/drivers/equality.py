"""Replay rows of spec/Equality.tla: assign old, then a freshly built new, to a parameter
watched by a changes-only watcher (and by an all-sets watcher), and compare who ran."""
import datetime as dt
import json

from harness.core import import_param

param = import_param()


def mk(v):
    k = v["k"]
    if k == "none":
        return None
    if k == "int":
        return v["n2"] // 2
    if k == "float":
        return v["n2"] / 2.0
    if k == "bool":
        return v["n2"] == 2
    if k == "nan":
        return float("nan")
    if k == "str":
        return "".join([v["s"]])
    if k == "date":
        return dt.date(2020, 1, v["t2"] // 2)
    if k == "datetime":
        return dt.datetime(2020, 1, v["t2"] // 2, 12 if v["t2"] % 2 else 0)
    if k == "tuple":
        return tuple(mk(x) for x in v["items"])
    if k == "list":
        return [mk(x) for x in v["items"]]
    if k == "dict":
        return {key: mk(x) for key, x in zip(v["keys"], v["items"])}
    raise ValueError(k)


class P(param.Parameterized):
    a = param.Parameter()


def replay(row, opts):
    old = row["old"]
    cases = sorted(row["row"], key=lambda c: json.dumps(c["new"], sort_keys=True))
    res = {"status": "ok", "nontrivial": True, "kf": []}
    for route in ("set", "update", "batch"):
        for cs in cases:
            p = P(a=mk(old))
            log = []
            p.param.watch(lambda e: log.append(("oc", e.old, e.new, e.type)), "a", onlychanged=True)
            p.param.watch(lambda e: log.append(("all", e.old, e.new, e.type)), "a", onlychanged=False)
            o0 = p.a
            n = mk(cs["new"])
            if route == "set":
                p.a = n
            elif route == "update":
                p.param.update(a=n)
            else:
                with param.parameterized.batch_call_watchers(p):
                    p.a = n
            oc = [x for x in log if x[0] == "oc"]
            al = [x for x in log if x[0] == "all"]
            want = 0 if cs["eq"] else 1
            if len(oc) != want:
                return {"status": "diverge", "step": 0, "kind": "suppressed" if want else "not_skipped", "tags": [], "nontrivial": True,
                        "msg": "%s: old=%r new=%r: changes-only watcher ran %d time(s), spec says %d (new %s old)"
                               % (route, mk(old), n, len(oc), want, "equals" if cs["eq"] else "differs from"),
                        "expected": want, "observed": len(oc)}
            if len(al) != 1 or al[0][2] is not n or al[0][1] is not o0 or (oc and (oc[0][2] is not n or oc[0][1] is not o0)):
                return {"status": "diverge", "step": 0, "kind": "event_old_new", "tags": [], "nontrivial": True,
                        "msg": "%s: old=%r new=%r: event old/new are not the objects replaced/installed (or the all-sets watcher ran %d times)"
                               % (route, mk(old), n, len(al)), "expected": 1, "observed": len(al)}
    res["sample"] = {"old": old, "row": cases[:5]}
    return res
