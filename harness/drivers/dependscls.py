"""Replay behaviours of spec/DependsCls.tla: build the hierarchy with depends-decorated methods,
run the probe program on an instance, compare invocation logs."""
import collections

from harness.core import import_param
from harness.drivers import _simple

param = import_param()
from param.parameterized import batch_call_watchers  # noqa: E402

BASES = {"chain": {"A": [], "B": ["A"], "C": ["B"]}, "diamond": {"A": [], "B": ["A"], "C": ["A"], "D": ["B", "C"]}}


def make_method(name, d, log):
    sets = d.get("sets", False)

    def m(self):
        log.append((name, self.x, self.y, self))
        if sets:
            self.y = 1
            self.y = 2
    m.__name__ = name
    m.__qualname__ = name
    if d["k"] == "undec":
        return m
    return param.depends(*sorted(d["deps"]), watch=("queued" if d["queued"] else True), on_init=d["oninit"])(m)


class System:
    def __init__(self, beh, opts):
        st = beh["steps"][0]
        self.log = []
        self.kf = set()
        self.tolerate = set(opts.get("tolerate", ()))
        shape, decl = st["shape"], st["decl"]
        made = {}
        for c in sorted(decl):
            ns = {}
            if c == "A":
                ns["x"] = param.Integer(0, bounds=(0, 5))
                ns["y"] = param.Integer(0, bounds=(0, 5))
            for m in ("m1", "m2"):
                if decl[c][m]["k"] != "absent":
                    ns[m] = make_method(m, decl[c][m], self.log)
            made[c] = type(c, tuple(made[b] for b in BASES[shape][c]) or (param.Parameterized,), ns)
        self.cls = made[st["icls"]]
        self.inst = None

    def step(self, st):
        a = st["a"]
        del self.log[:]
        if a == "init":
            self.inst = self.cls()
            # a bystander: a second instance of the same class; its methods must never run for the first one's changes
            self.by = self.cls()
            self.log[:] = [e for e in self.log if e[3] is self.inst]
            return
        p = self.inst

        def apply(n, v):
            if n == "bounds":
                p.param.x.bounds = (0, 5 + v)
            else:
                setattr(p, n, v)
        if a == "set":
            apply(*st["items"][0])
        elif a == "update":
            p.param.update(**{n: v for n, v in st["items"]})
        elif a == "batch":
            with batch_call_watchers(p):
                for n, v in st["items"]:
                    apply(n, v)
        elif a == "batchraise":
            try:
                with batch_call_watchers(p):
                    for n, v in st["items"]:
                        apply(n, v)
                    raise KeyError("escapes the batch body")
            except KeyError:
                pass


def replay(beh, opts):
    steps = beh["steps"]
    res = {"status": "ok", "nontrivial": True, "kf": []}
    sysm = System(beh, opts)
    kf = set()
    for i, st in enumerate(steps):
        sysm.step(st)
        stray = [x[0] for x in sysm.log if x[3] is not sysm.inst]
        if stray:
            return {"status": "diverge", "step": i, "kind": "bystander", "msg": "%s on one instance invoked %s of another instance of the same class" % (st["a"], stray),
                    "expected": [], "observed": stray, "tags": [], "nontrivial": True, "kf": sorted(kf)}
        got = collections.Counter(x[0] for x in sysm.log)
        exp = collections.Counter(st["calls"])
        tags = set(st.get("kf", []))
        ok = True
        for m in ("m1", "m2"):
            if got[m] == exp[m]:
                continue
            # open known findings are tolerated only when the observation is exactly what the
            # specification's model of the implementation's registration predicts
            open_tags = tags & sysm.tolerate
            if open_tags and got[m] == st["asbuilt"][m]:
                kf.update(open_tags)
                continue
            ok = False
            bad = ("invocations", "%s: %s invoked %d time(s), spec expects %d (instance of %s; declarations %s)"
                   % (st["a"] + (str(st.get("items")) if st["a"] != "init" else ""), m, got[m], exp[m], steps[0]["icls"], steps[0]["decl"]))
            break
        if ok and (sysm.inst.x, sysm.inst.y) != (st["val"]["x"], st["val"]["y"]):
            ok = False
            bad = ("values", "after %s the object shows x=%r y=%r, spec expects %r" % (st["a"], sysm.inst.x, sysm.inst.y, st["val"]))
        if ok and st["a"] != "init" and not st["setter"]:
            for name, x, y, _ in sysm.log:
                if (x, y) != (st["val"]["x"], st["val"]["y"]):
                    ok = False
                    bad = ("stale_read", "%s: %s ran while the object showed x=%r y=%r, spec expects the new values %r"
                           % (st["a"], name, x, y, st["val"]))
                    break
        if ok and st["a"] == "init":
            for m in ("m1", "m2"):
                try:
                    md = {(d.name if d.what == "value" else "%s:%s" % (d.name, d.what)) for d in sysm.inst.param.method_dependencies(m)}
                except Exception as e:  # noqa
                    md = {"<%s>" % type(e).__name__}
                want = set(st["mdeps"][m])
                if not want:
                    continue    # undecorated / absent: not automatically invoked; method_dependencies is free
                if md != want:
                    if "KF_InheritedRegistration" in tags & sysm.tolerate:
                        continue     # (method_dependencies itself follows the instance's class: not asserted under the finding)
                    ok = False
                    bad = ("method_dependencies", "method_dependencies(%r) on an instance of %s is %s, spec expects %s (declarations %s)"
                           % (m, st["icls"], sorted(md), sorted(want), st["decl"]))
                    break
        if not ok:
            return {"status": "diverge", "step": i, "kind": bad[0], "msg": bad[1], "expected": dict(exp), "observed": dict(got),
                    "tags": sorted({t for s in steps[:i + 1] for t in s.get("kf", [])}), "nontrivial": True, "kf": sorted(kf)}
    res["kf"] = sorted(kf)
    res["sample"] = beh
    return res
