"""Replay hierarchies of spec/Inherit.tla: build the classes for real and compare every slot."""
import inspect

from harness.core import import_param

param = import_param()

VAL = {"lempty": [], "l1": [1], "ls": ["s"], "t2": (0, 0), "t3": (1, 2, 3), "None": None, "0": 0, "0.0": 0.0, "1": 1, "5": 5, "1.5": 1.5, "s": "s", "o": "o", "": "", "T": True, "F": False,
       "b02": (0, 2), "b46": (4, 6), "d1": "d1", "d2": "d2"}
BASES = {"chain": {"A": [], "B": ["A"], "C": ["B"]}, "skip": {"A": [], "B": ["A"], "C": ["B"]},
         "diamondBC": {"A": [], "B": ["A"], "C": ["A"], "D": ["B", "C"]},
         "diamondCB": {"A": [], "B": ["A"], "C": ["A"], "D": ["C", "B"]}}


META = {"m1": dict(label="L1", precedence=1.0, pickle_default_value=False, allow_refs=True, nested_refs=True, per_instance=False),
        "m2": dict(label="L2", precedence=2.0, pickle_default_value=False, allow_refs=True, nested_refs=False, per_instance=True),
        "None": dict(label=None, precedence=None, pickle_default_value=True, allow_refs=False, nested_refs=False, per_instance=True)}
NMETA = {"n1": dict(step=2, softbounds=(0, 9)), "None": dict(step=None, softbounds=None)}


def make_param(d):
    kw = {}
    if d["ty"] == "Selector":
        kw["objects"] = ["s", "o"]
    if d["default"] != "U" and not (d["ty"] == "Selector" and d["default"] == "s"):      # (the first object: left to the constructor)
        kw["default"] = VAL[d["default"]]
    if d["bounds"] != "U" and d["ty"] in ("Number", "Integer"):
        kw["bounds"] = VAL[d["bounds"]]
    if d.get("incl", "U") != "U" and d["ty"] in ("Number", "Integer"):
        kw["inclusive_bounds"] = (False, False)
    if d["doc"] != "U":
        kw["doc"] = VAL[d["doc"]]
    if d["constant"] != "U":
        kw["constant"] = True
    if d["an"] != "U":
        kw["allow_None"] = True
    if d["inst"] != "U":
        kw["instantiate"] = True
    if d.get("it", "U") != "U" and d["ty"] == "List":
        kw["item_type"] = {"int": int, "str": str, "None": None}[d["it"]]
    if d.get("meta", "U") != "U":
        kw.update(META[d["meta"]])
    if d.get("nmeta", "U") != "U" and d["ty"] in ("Number", "Integer"):
        kw.update(NMETA[d["nmeta"]])
    return getattr(param, d["ty"])(**kw)


def tok(v):
    for k, x in VAL.items():
        if type(x) is type(v) and x == v and k not in ("T", "F", "d1", "d2", "b02", "b46"):
            return k
    return repr(v)


def replay(beh, opts):
    shape, decl, expect = beh["shape"], beh["decl"], beh["expect"]
    res = {"status": "ok", "kf": [], "nontrivial": any(
        d.get("ty") != "absent" and c != "A" and "U" in [d[k] for k in ("default", "bounds", "doc", "constant")]
        for c, d in decl.items())}

    def fail(kind, msg, exp=None, got=None):
        return {"status": "diverge", "step": 0, "kind": kind, "msg": "[%s] %s" % (mode, msg), "expected": exp, "observed": got,
                "tags": [], "nontrivial": True, "kf": []}

    for mode in ("body", "add_parameter", "add_parameter_over"):
        made = {}
        for c in sorted(decl):
            e = expect[c]
            bases = BASES[shape][c]
            if any(b not in made for b in bases):
                if e["exists"]:
                    return fail("exists", "class %s cannot be built (a base failed) but spec says it exists" % c)
                continue
            if not e["exists"]:
                return fail("exists", "all bases of %s were created but spec says it cannot exist" % c)
            d = decl[c]
            pbases = tuple(made[b] for b in bases) or (param.Parameterized,)
            try:
                if d["ty"] == "absent":
                    cls = type(c, pbases, {})
                elif mode == "body":
                    cls = type(c, pbases, {"x": make_param(d)})
                else:
                    # "add_parameter_over": the class already declares the name itself (a neutral Parameter()), and
                    # add_parameter replaces that declaration
                    cls = type(c, pbases, {"x": param.Parameter()} if mode == "add_parameter_over" else {})
                    before = (cls.x, inspect.getattr_static(cls, "x")) if hasattr(cls, "x") else None
                    cls.param.values()
                    cls.param.add_parameter("x", make_param(d))
                raised = None
            except Exception as ex:  # noqa: class creation wraps validation errors in RuntimeError
                raised = ex
                if mode != "body" and d["ty"] != "absent":
                    # a refused add_parameter leaves the class as it was: no class may exist whose
                    # Parameter contradicts its own constraints
                    after = (cls.x, inspect.getattr_static(cls, "x")) if hasattr(cls, "x") else None
                    if (before is None) != (after is None) or (before is not None and (before[1] is not after[1] or before[0] != after[0])):
                        return fail("failed_add_leaves_parameter", "add_parameter on %s raised %s but left %s.x = %r governed by %r (before: %r)"
                                    % (c, type(ex).__name__, c, after and after[0], after and after[1], before))
                    if before is not None and (cls.param["x"] is not before[1] or cls.param["x"].default != before[0]):
                        return fail("failed_add_leaves_parameter", "add_parameter on %s raised but %s.param['x'] is now %r (default %r), attribute access gives %r"
                                    % (c, c, cls.param["x"], cls.param["x"].default, cls.x))
            if d["ty"] == "absent":
                if raised is not None:
                    return fail("raised", "creating %s (no declaration) raised %r" % (c, raised))
                made[c] = cls
                continue
            if e["fails"]:
                if raised is None:
                    got = cls.param["x"]
                    return fail("should_fail", "class %s was created with default=%r bounds=%r allow_None=%r but its merged default "
                                "contradicts its constraints/type; spec says creation must fail" % (
                                    c, got.default, getattr(got, "bounds", None), got.allow_None), "raises", "created")
                continue
            if raised is not None:
                return fail("should_succeed", "creating class %s raised %s: %s; spec says it is valid (default=%s bounds=%s)"
                            % (c, type(raised).__name__, str(raised)[:150], e["default"], e["bounds"]), "created", "raised")
            made[c] = cls
            p = cls.param["x"]
            got = {"ty": type(p).__name__, "default": tok(p.default),
                   "bounds": "None" if d["ty"] not in ("Number", "Integer") else
                             {None: "None", (0, 2): "b02", (4, 6): "b46"}.get(getattr(p, "bounds", None), repr(getattr(p, "bounds", None))),
                   "incl": "ii" if getattr(p, "inclusive_bounds", (True, True)) == (True, True) else "xx",
                   "doc": "None" if p.doc is None else p.doc, "constant": "T" if p.constant else "F",
                   "an": "T" if p.allow_None else "F", "inst": "T" if p.instantiate else "F",
                   "it": {None: "None", int: "int", str: "str"}.get(getattr(p, "item_type", None), "?")}
            for k, want in list(META[e.get("meta", "None")].items()) + (list(NMETA[e.get("nmeta", "None")].items()) if d["ty"] in ("Number", "Integer") else []):
                have = getattr(p, "_label" if k == "label" else k)
                if have != want or type(have) is not type(want):
                    return fail("slot_" + k, "%s.param['x'].%s is %r, spec expects %r (decls %s)" % (c, k, have, want, decl), want, have)
            for k, v in got.items():
                if e[k] != v:
                    return fail("slot_" + k, "%s.param['x'].%s is %s, spec expects %s (decls %s)" % (
                        c, k, v, e[k], {cc: dd for cc, dd in decl.items()}), e[k], v)
            if cls.x != p.default and not (cls.x is None and p.default is None):
                return fail("attr", "%s.x is %r but .param['x'].default is %r" % (c, cls.x, p.default))
    res["sample"] = beh
    return res
