"""Replay behaviours of spec/DependsFn.tla: a function decorated with Parameter-object dependencies."""
from harness.core import import_param

param = import_param()
from param.parameterized import batch_call_watchers  # noqa: E402


class O(param.Parameterized):
    x = param.Integer(0)
    y = param.Integer(0)


def replay(beh, opts):
    steps = beh["steps"]
    deps = steps[0]["deps"]
    objs = {1: O(), 2: O()}
    log = []
    pos = [getattr(objs[d["o"]].param, d["p"]) for d in deps if not d["kw"]]
    kws = {"k%d" % i: getattr(objs[d["o"]].param, d["p"]) for i, d in enumerate(deps) if d["kw"]}
    order = [("pos", j) for j, d in enumerate([d for d in deps if not d["kw"]])]

    def fn(*args, **kwargs):
        log.append((list(args), dict(kwargs)))
    param.depends(*pos, watch=True, **kws)(fn)
    res = {"status": "ok", "nontrivial": True, "kf": []}
    for i, st in enumerate(steps[1:], 1):
        del log[:]
        o = objs[st["o"]]
        if st["a"] == "set":
            setattr(o, *st["items"][0])
        elif st["a"] == "update":
            o.param.update(**{n: v for n, v in st["items"]})
        else:
            with batch_call_watchers(o):
                for n, v in st["items"]:
                    setattr(o, n, v)
        bad = None
        if len(log) != st["calls"]:
            bad = ("invocations", "%s on object %d %s: the function ran %d time(s), spec expects %d (dependencies %s)"
                   % (st["a"], st["o"], st["items"], len(log), st["calls"], deps))
        elif log:
            args, kwargs = log[-1]
            want_pos = [st["args"][j] for j, d in enumerate(deps) if not d["kw"]]
            want_kw = {"k%d" % j: st["args"][j] for j, d in enumerate(deps) if d["kw"]}
            if args != want_pos or kwargs != want_kw:
                bad = ("arguments", "%s: the function received %s %s, spec expects the current values %s %s" % (st["a"], args, kwargs, want_pos, want_kw))
        if bad:
            return {"status": "diverge", "step": i, "kind": bad[0], "msg": bad[1], "expected": st["calls"], "observed": len(log),
                    "tags": [], "nontrivial": True, "kf": []}
    res["sample"] = beh
    return res
