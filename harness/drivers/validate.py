"""Replay the verdict tables of spec/Validate.tla: every candidate through every route."""
import datetime as dt
import decimal
import fractions
import json
import math

from harness.core import import_param

param = import_param()

NOB = -9999


class A:
    pass


class SubA(A):
    pass


class Other:
    pass


class Third:
    pass


CLASSES = {"A": A, "SubA": SubA, "Other": Other, "Third": Third}


def _hook():
    return None


def mk(v):
    k = v["k"]
    if k == "none":
        return None
    if k == "int":
        return v["n2"] // 2
    if k == "float":
        return v["n2"] / 2.0
    if k == "frac":
        return fractions.Fraction(v["n2"], 2)
    if k == "dec":
        return decimal.Decimal(v["n2"]) / 2
    if k == "nan":
        return float("nan")
    if k == "inf":
        return float("inf") if v["n2"] > 0 else float("-inf")
    if k == "str":
        return v["s"]
    if k == "bytes":
        return v["s"].encode()
    if k == "bool":
        return v["b"]
    if k == "date":
        return dt.date(2020, 1, v["t2"] // 2)
    if k == "datetime":
        return dt.datetime(2020, 1, v["t2"] // 2, 12 if v["t2"] % 2 else 0) + dt.timedelta(microseconds=v.get("us", 0))
    if k == "tuple":
        return tuple(mk(x) for x in v["items"])
    if k == "list":
        return [mk(x) for x in v["items"]]
    if k == "callable":
        return _hook
    if k == "builtin":
        return {"len": len, "float": float}[v["w"]]
    if k == "class":
        return CLASSES[v["c"]]
    if k == "inst":
        return CLASSES[v["c"]]()
    if k == "dict":
        return {"k": 1}
    raise ValueError(k)


def same(a, b):
    """read-back comparison: identity, or equality of equal types (NaN-aware)"""
    if a is b:
        return True
    if type(a) is not type(b):
        return False
    if isinstance(a, float) and math.isnan(a) and math.isnan(b):
        return True
    if isinstance(a, (tuple, list)):
        return len(a) == len(b) and all(same(x, y) for x, y in zip(a, b))
    return a == b


def bound(t, x):
    if x == NOB:
        return None
    if t in ("Date", "CalendarDate", "DateRange", "CalendarDateRange"):
        return dt.date(2020, 1, x // 2)
    return x // 2 if x % 2 == 0 else x / 2.0


def OBJ(o):
    return "A" * 250 if o == "L" else o


def declare(t, c, default):
    kw = {"allow_None": c["an"]}
    T = getattr(param, t)
    if t in ("Number", "Integer", "Date", "CalendarDate", "Range", "DateRange", "CalendarDateRange"):
        lo, hi = bound(t, c["lo"]), bound(t, c["hi"])
        if lo is not None or hi is not None:
            kw["bounds"] = (lo, hi)
            kw["inclusive_bounds"] = (c["il"], c["ih"])
    if t in ("String", "Bytes") and c["rx"]:
        kw["regex"] = r"^a\d$" if t == "String" else rb"^a\d$"
    if t in ("Tuple", "NumericTuple"):
        kw["length"] = c["len"]
    if t in ("List", "HookList"):
        if c["lo"] != NOB or c["hi"] != NOB:
            kw["bounds"] = (None if c["lo"] == NOB else c["lo"], None if c["hi"] == NOB else c["hi"])
        if t == "List" and c["it"] != "none":
            kw["item_type"] = {"int": int, "str": str}[c["it"]]
    if t in ("Selector", "ListSelector"):
        kw["objects"] = {"l" + o: OBJ(o) for o in sorted(c["objs"])} if c.get("dd") else [OBJ(o) for o in sorted(c["objs"])]
        kw["check_on_set"] = c["cos"]
    if t == "ClassSelector":
        kw["class_"] = (A, Other) if c["cls"] == "AorOther" else CLASSES[c["cls"]]
        kw["is_instance"] = c["isi"]
    if t == "Color":
        kw["allow_named"] = c["named"]
    return T(default=default, **kw)


def reconfigure(p, t, c):
    """bring the attributes of an existing Parameter object to configuration c"""
    p.allow_None = c["an"]
    if t in ("Number", "Integer", "Date", "CalendarDate", "Range", "DateRange", "CalendarDateRange"):
        lo, hi = bound(t, c["lo"]), bound(t, c["hi"])
        p.bounds = None if lo is None and hi is None else (lo, hi)
        p.inclusive_bounds = (c["il"], c["ih"])
    if t in ("String", "Bytes"):
        p.regex = (r"^a\d$" if t == "String" else rb"^a\d$") if c["rx"] else None
    if t in ("Tuple", "NumericTuple"):
        p.length = c["len"]
    if t in ("List", "HookList"):
        p.bounds = (None if c["lo"] == NOB else c["lo"], None if c["hi"] == NOB else c["hi"])
        if t == "List":
            p.item_type = {"int": int, "str": str, "none": None}[c["it"]]
    if t in ("Selector", "ListSelector"):
        p.objects = {"l" + o: OBJ(o) for o in sorted(c["objs"])} if c.get("dd") else [OBJ(o) for o in sorted(c["objs"])]
    if t == "ClassSelector":
        p.class_ = (A, Other) if c["cls"] == "AorOther" else CLASSES[c["cls"]]
    if t == "Color":
        p.allow_named = c["named"]


def json_form(t, v):
    """Independent JSON rendering of a candidate for the deserialization route, or None if
    the candidate cannot be told apart in JSON for this parameter type."""
    k = v["k"]
    if k == "none":
        return None, True
    if k in ("int", "str", "bool"):
        if t in ("Date", "CalendarDate") and k == "str":
            return None, False
        if k == "str" and t in ("Tuple", "NumericTuple", "XYCoordinates", "Range", "DateRange", "CalendarDateRange"):
            return None, False     # a JSON string deserializes to a tuple of characters: ambiguous input
        return mk(v), True
    if k == "float":
        return mk(v), True
    if k == "tuple" and t in ("Tuple", "NumericTuple", "XYCoordinates", "Range"):
        if all(x["k"] in ("int", "float", "str", "none") for x in v["items"]):
            return [mk(x) for x in v["items"]], True
    if k == "list" and t in ("List", "ListSelector"):
        if all(x["k"] in ("int", "str") for x in v["items"]):
            return [mk(x) for x in v["items"]], True
    if k == "datetime" and t == "Date":
        return mk(v).strftime("%Y-%m-%dT%H:%M:%S.%f"), True
    if k == "date" and t == "CalendarDate":
        return mk(v).strftime("%Y-%m-%d"), True
    if k == "tuple" and t in ("CalendarDateRange",) and all(x["k"] == "date" for x in v["items"]):
        return [mk(x).strftime("%Y-%m-%d") for x in v["items"]], True
    if k == "tuple" and t == "DateRange" and all(x["k"] in ("date", "datetime") for x in v["items"]):
        return [mk(x).strftime("%Y-%m-%d") if x["k"] == "date" else mk(x).strftime("%Y-%m-%dT%H:%M:%S.%f")
                for x in v["items"]], True
    return None, False


def order(cases):
    return sorted(cases, key=lambda cs: json.dumps(cs["v"], sort_keys=True))


def replay(tab, opts):
    t, c = tab["t"], tab["c"]
    cases = order(tab["cases"])
    res = {"status": "ok", "nontrivial": any(cs["acc"] for cs in cases) and any(not cs["acc"] for cs in cases), "kf": []}
    kf = set()
    tolerate = set(opts.get("tolerate", ()))

    def fail(kind, msg, exp=None, got=None):
        return {"status": "diverge", "step": 0, "kind": kind, "msg": "%s %s: %s" % (t, json.dumps(c, sort_keys=True), msg),
                "expected": exp, "observed": got, "tags": [], "nontrivial": True, "kf": sorted(kf)}

    first_ok = next(cs for cs in cases if cs["acc"] and cs["v"]["k"] != "none") if any(
        cs["acc"] and cs["v"]["k"] != "none" for cs in cases) else next(cs for cs in cases if cs["acc"])
    default = mk(first_ok["v"])
    try:
        P = type("P", (param.Parameterized,), {"x": declare(t, c, default)})
    except Exception as e:  # noqa
        return fail("declare", "declaration with the accepted default %r raised %s: %s" % (default, type(e).__name__, e))
    # declaration route: a rejected non-None default makes class creation fail
    for cs in cases:
        if cs["v"]["k"] == "none":
            continue
        if t in ("Selector", "ListSelector") and not c["cos"]:
            continue
        if c["len"] and cs["v"]["k"] == "tuple" and len(cs["v"]["items"]) != c["len"]:
            continue   # documented: a non-empty default determines the declared length
        try:
            type("Q", (param.Parameterized,), {"x": declare(t, c, mk(cs["v"]))})
            ok, exc = True, None
        except (ValueError, TypeError) as e:
            ok, exc = False, e
        except Exception as e:  # noqa
            return fail("exception_class", "declaring default %r raised %s (not ValueError/TypeError)" % (mk(cs["v"]), type(e).__name__))
        if ok != cs["acc"]:
            return fail("declare", "declaring default %r %s, spec says %s" % (
                mk(cs["v"]), "succeeded" if ok else "raised %s" % type(exc).__name__, "accepted" if cs["acc"] else "rejected"),
                cs["acc"], ok)
    for route in ("constructor", "instance", "class", "update", "deserialize"):
        if t in ("Selector", "ListSelector") and not c["cos"]:
            # without check_on_set every value is accepted *and appended to objects*: fresh class per route
            P = type("P", (param.Parameterized,), {"x": declare(t, c, default)})
        inst = P()
        stored = P.x if route == "class" else inst.x
        for cs in cases:
            v = mk(cs["v"])
            if route == "deserialize":
                j, able = json_form(t, cs["v"])
                if not able:
                    continue
            try:
                if route == "constructor":
                    obj = P(x=v)
                    got = obj.x
                elif route == "instance":
                    inst.x = v
                    got = inst.x
                elif route == "class":
                    P.x = v
                    got = P.x
                elif route == "update":
                    inst.param.update(x=v)
                    got = inst.x
                else:
                    kwargs = P.param.deserialize_parameters(json.dumps({"x": j}))
                    obj = P(**kwargs)
                    got = obj.x
                ok, exc = True, None
            except (ValueError, TypeError) as e:
                ok, exc = False, e
            except Exception as e:  # noqa
                return fail("exception_class", "%s route: assigning %r raised %s (not ValueError/TypeError): %s"
                            % (route, v, type(e).__name__, e))
            if ok != cs["acc"]:
                return fail("verdict", "%s route: %r was %s, spec says %s" % (
                    route, v, "accepted" if ok else "rejected (%s)" % type(exc).__name__,
                    "accepted" if cs["acc"] else "rejected"), cs["acc"], ok)
            if ok and t == "Event":
                # an Event holds True only while its watchers run: the read-back is False by design
                if got is not False and route != "class":
                    return fail("readback", "%s route: an Event reads %r after the assignment returned" % (route, got))
            elif ok:
                if route != "deserialize" and not same(got, v):
                    return fail("readback", "%s route: assigned %r but read back %r" % (route, v, got), repr(v), repr(got))
                if route == "deserialize" and not (same(got, v) or got == v):
                    return fail("readback", "deserialize route: sent %r but read back %r" % (v, got), repr(v), repr(got))
                if route in ("instance", "class", "update"):
                    stored = got
            elif route in ("instance", "class", "update"):
                now = P.x if route == "class" else inst.x
                if not same(now, stored):
                    return fail("rejected_but_changed", "%s route: rejected %r yet the value changed from %r to %r"
                                % (route, v, stored, now), repr(stored), repr(now))
    # ---- the constraints are changed in place on the declared Parameter; the verdicts follow
    alt = tab.get("alt")
    if alt and not (t in ("Selector", "ListSelector") and not (c["cos"] and alt["c"]["cos"])) and t not in ("Magnitude", "Event"):
        c2 = alt["c"]
        cases2 = order(alt["cases"])
        ok2 = [cs for cs in cases2 if cs["acc"] and cs["v"]["k"] != "none"] or [cs for cs in cases2 if cs["acc"]]
        if ok2:
            P = type("P", (param.Parameterized,), {"x": declare(t, c, default)})
            old_inst = P()
            old_inst.param.x            # an instance whose own Parameter copy predates the change keeps the old constraints
            try:
                reconfigure(P.param.x, t, c2)
                P.param.x.default = mk(ok2[0]["v"])      # a default that fits the new constraints
            except Exception as e:  # noqa
                return fail("reconfigure", "changing the Parameter's attributes to %s raised %s: %s" % (c2, type(e).__name__, e))
            for route in ("constructor", "instance", "class", "update"):
                inst = P()
                for cs in cases2:
                    v = mk(cs["v"])
                    try:
                        if route == "constructor":
                            P(x=v)
                        elif route == "instance":
                            inst.x = v
                        elif route == "class":
                            P.x = v
                        else:
                            inst.param.update(x=v)
                        ok = True
                    except (ValueError, TypeError):
                        ok = False
                    except Exception as e:  # noqa
                        return fail("exception_class", "%s route after the constraints changed: assigning %r raised %s" % (route, v, type(e).__name__))
                    if ok != cs["acc"]:
                        return fail("verdict_after_change", "after the Parameter's constraints were changed in place to %s, %s route: %r was %s, spec says %s"
                                    % ({k: x for k, x in c2.items() if x not in (NOB,)}, route, v, "accepted" if ok else "rejected", "accepted" if cs["acc"] else "rejected"),
                                    cs["acc"], ok)
                    if route == "class" and ok:
                        P.param.x.default = mk(ok2[0]["v"])
    res["sample"] = {"t": t, "c": c, "cases": cases[:6]}
    return res
