"""Replay behaviours of spec/AsyncRef.tla against the real Parameters._async_ref on a
single-step event loop owned by the driver (every behaviour is deterministic)."""
import asyncio
import contextvars
import warnings

from harness.core import import_param
from harness.steploop import StepLoop

param = import_param()
warnings.simplefilter("ignore")


class T(param.Parameterized):
    p = param.Integer(default=0, allow_refs=True)
    q = param.Integer(default=0, allow_refs=True)      # a second parameter with its own pending reference


def fstate(f):
    return "none" if f is None else "cancelled" if f.cancelled() else "done" if f.done() else "pending"


def replay(beh, opts):
    # every behaviour twice: a fresh function object per assignment, and one function object (per kind)
    # assigned again and again -- its n-th call awaits the n-th assignment's awaitables
    res = None
    for shared, ctor in ((False, False), (True, False), (False, True)):
        res = _replay(beh, opts, shared, ctor)
        if res["status"] != "ok":
            res["msg"] = "[%s%s] %s" % ("one function object re-assigned" if shared else "fresh functions",
                                       ", first assignment made by the constructor" if ctor else "", res.get("msg"))
            break
    return res


def _replay(beh, opts, shared, ctor=False):
    steps = beh["steps"]
    loop = StepLoop()
    asyncio._set_running_loop(loop)
    res = {"status": "ok", "nontrivial": any(s["a"] == "tick" and s["what"] in ("apply", "start") for s in steps), "kf": []}
    try:
        t = None if ctor else T()
        qfut = loop.create_future()

        async def q_ref():
            return await qfut

        if t is not None:
            # q's coroutine reference is started and stays pending for the whole behaviour
            t.q = q_ref
            while loop.tick():
                pass
        futs = {}
        kinds = {}
        # which awaitables an invocation of the shared function waits for is fixed when the task is created
        # (a Task captures the context of its creator), not when its body first runs
        bound = contextvars.ContextVar("awaitables")

        async def shared_co():
            return await bound.get()[0]

        async def shared_gen():
            f1, f2 = bound.get()
            yield await f1
            yield await f2
        for k, st in enumerate(steps):
            a = st["a"]
            bad = None
            if a == "assign":
                i = st["i"]
                kinds[i] = st["kind"]
                if st["kind"] in ("coro", "bad"):
                    f = loop.create_future()
                    futs[(i, 1)] = f

                    async def co(f=f):
                        return await f
                    bound.set((f,))
                    if t is None:
                        t = T(p=shared_co if shared else co)
                    else:
                        t.p = shared_co if shared else co
                elif st["kind"] == "gen":
                    f1, f2 = loop.create_future(), loop.create_future()
                    futs[(i, 1)], futs[(i, 2)] = f1, f2

                    async def gen(f1=f1, f2=f2):
                        yield await f1
                        yield await f2
                    bound.set((f1, f2))
                    if t is None:
                        t = T(p=shared_gen if shared else gen)
                    else:
                        t.p = shared_gen if shared else gen
                elif st["kind"] == "same":
                    # the current value itself, assigned again
                    if t is None:
                        t = T(p=T.param.p.default)
                    else:
                        t.p = t.p
                else:
                    if t is None:
                        t = T(p=3000 + i)
                    else:
                        t.p = 3000 + i
            elif a == "resolve":
                i, kk = st["i"], st["k"]
                futs[(i, kk)].set_result((2000 + 10 * i + kk) if kinds[i] == "gen" else "rejected" if kinds[i] == "bad" else 1000 + i)
            elif a == "tick":
                if not loop.tick():
                    bad = ("loop", "spec runs a ready callback (%s of task %d) but the real loop has nothing ready" % (st["what"], st["t"]))
            if bad is None:
                o = st["obs"]
                n = len(o["fut"])
                got = {"val": 0 if t is None else t.p, "fut": [[fstate(futs.get((i, 1))), fstate(futs.get((i, 2)))] for i in range(1, n + 1)]}
                if got != o:
                    kind = "late_result" if got["val"] != o["val"] else "future_state"
                    bad = (kind, "after %s: observed %s, spec expects %s" % ({x: y for x, y in st.items() if x not in ("obs", "kf")}, got, o))
            if bad is None and k == len(steps) - 1:
                if loop.pending_task_handles() != 0 and not any(True for _ in ()):
                    pass
            if bad:
                return {"status": "diverge", "step": k, "kind": bad[0], "msg": bad[1], "expected": st.get("obs"), "observed": None,
                        "tags": sorted({x for s in steps[:k + 1] for x in s.get("kf", [])}), "nontrivial": True, "kf": []}
        if t is not None and not ctor:
            # the other parameter's reference was never assigned to: its result must still arrive
            if qfut.done():
                return {"status": "diverge", "step": len(steps) - 1, "kind": "other_parameter_cancelled",
                        "msg": "a second parameter of the same object had a pending coroutine reference throughout; its awaitable was %s by assignments to p" % fstate(qfut),
                        "expected": "pending", "observed": fstate(qfut), "tags": sorted({x for s in steps for x in s.get("kf", [])}), "nontrivial": True, "kf": []}
            qfut.set_result(777)
            for _ in range(50):
                if not loop.tick():
                    break
            if t.q != 777:
                return {"status": "diverge", "step": len(steps) - 1, "kind": "other_parameter_cancelled",
                        "msg": "a second parameter of the same object had a pending coroutine reference throughout; after it completed the parameter holds %r, expected 777 (assignments to p must not cancel q's reference)" % (t.q,),
                        "expected": 777, "observed": t.q, "tags": sorted({x for s in steps for x in s.get("kf", [])}), "nontrivial": True, "kf": []}
        # (a task that failed applying a rejected result reports its ValueError to the loop: expected)
        loop.errors = [e for e in loop.errors if not (isinstance(e.get("exception"), ValueError) and "bad" in kinds.values())]
        if getattr(loop, "errors", None):
            return {"status": "diverge", "step": len(steps) - 1, "kind": "loop_error", "msg": "exception reported to the loop: %r" % loop.errors[:1],
                    "tags": [], "nontrivial": True, "kf": []}
    finally:
        asyncio._set_running_loop(None)
    res["sample"] = beh
    # the specification models the known deviation: behaviours in which it occurs are counted
    res["kf"] = sorted({x for s in steps for x in s.get("kf", [])})
    return res
