"""Replay behaviours of spec/DependsChain.tla (depth-three sub-object paths)."""
from harness.core import import_param
from harness.drivers.dependspath import asmap, nwatchers

param = import_param()


class Leaf(param.Parameterized):
    x = param.Integer(0)
    y = param.Integer(0)


class Mid2(param.Parameterized):
    d = param.Parameter(None)


class Mid1(param.Parameterized):
    b = param.Parameter(None)


_TOPS = {}


def top_class(two):
    if two not in _TOPS:
        def m(self):
            self._log.append(1)
        specs = ["a.b.d.x", "a.b.d.y"] if two else ["a.b.d.x"]
        _TOPS[two] = type("Top3_%s" % two, (param.Parameterized,), {"a": param.Parameter(None), "m": param.depends(*specs, watch=True)(m)})
    return _TOPS[two]


_SUBS = {}


def inherited(base, beh):
    """the instance's class: the declaring class itself, a subclass or a grandchild of it (the dependent
    method is then inherited through 0, 1 or 2 levels) -- chosen per behaviour, deterministically"""
    import json
    import zlib
    depth = zlib.crc32(json.dumps(beh, sort_keys=True).encode()) % 3
    key = (base, depth)
    if key not in _SUBS:
        cls = base
        for i in range(depth):
            cls = type("%s_s%d" % (base.__name__, i + 1), (cls,), {})
        _SUBS[key] = cls
    return _SUBS[key]


def replay(beh, opts):
    steps = beh["steps"]
    st0 = steps[0]
    leaves = {k: Leaf(name="leaf", x=v["x"], y=v["y"]) for k, v in asmap(st0["leaf"]).items()}
    m2 = {k: Mid2(name="m2", d=leaves.get(v)) for k, v in asmap(st0["m2d"]).items()}
    m1 = {k: Mid1(name="m1", b=m2.get(v)) for k, v in asmap(st0["m1b"]).items()}
    top = inherited(top_class(st0["two"]), beh)(a=m1.get(st0["ta"]))
    top._log = []
    res = {"status": "ok", "nontrivial": False, "kf": []}
    for i, st in enumerate(steps):
        a = st["act"]
        n = a["name"]
        del top._log[:]
        if n == "seta":
            top.a = m1.get(a["v"])
        elif n == "setb":
            m1[a["m"]].b = m2.get(a["v"])
        elif n == "setd":
            m2[a["m"]].d = leaves.get(a["v"])
        elif n == "setleaf":
            setattr(leaves[a["l"]], a["f"], a["v"])
        bad = None
        if n != "init":
            got, v = len(top._log), st["verdict"]
            if v == "once":
                res["nontrivial"] = True
            if (v == "once" and got != 1) or (v == "never" and got != 0):
                bad = ("invocations", "%s %s: the dependent method ran %d time(s), spec says %s" % (n, {k: x for k, x in a.items() if k != "name"}, got, v))
        if bad is None:
            on = {(k, j) for k, j in st["onpath"]}
            off = [(kind, j, nwatchers(o)) for kind, pool in (("leaf", leaves), ("m1", m1), ("m2", m2)) for j, o in pool.items()
                   if (kind, j) not in on and nwatchers(o)]
            if off:
                bad = ("leftover_watchers", "after %s: objects off the current path still carry watchers of the parent: %s" % (n, off))
        if bad:
            return {"status": "diverge", "step": i, "kind": bad[0], "msg": bad[1], "expected": st.get("verdict"), "observed": len(top._log),
                    "tags": [], "nontrivial": True, "kf": []}
    res["sample"] = beh
    return res
