"""Replay behaviours of spec/Copy.tla: histories before and after a deepcopy / pickle round trip."""
import copy
import json
import pickle
import zlib

from harness.core import import_param

param = import_param()
import logging  # noqa: E402
logging.getLogger("param").setLevel(logging.CRITICAL)
LOG = []


class Leaf(param.Parameterized):
    x = param.Integer(0)


class Top(param.Parameterized):
    n = param.Integer(0, bounds=(0, 5), allow_refs=True)   # assignments take the reference-aware path
    l = param.List([])
    a = param.Parameter(None)
    u = param.Integer(0)          # nobody watches it; only its per-instance `default` attribute is edited
    sel = param.Selector(objects=["hot", "cool", "gray"], default="gray", check_on_set=False)
    __slots__ = []

    @param.depends("n", watch=True)
    def k(self):
        LOG.append((id(self), "k"))

    @param.depends("n:bounds", watch=True)
    def b(self):
        LOG.append((id(self), "b"))

    @param.depends("a.x", watch=True)
    def m(self):
        LOG.append((id(self), "m"))


class TopAttr(Top):
    """a subclass keeping an ordinary attribute in its own __slots__"""
    __slots__ = ["slotattr"]


def snapshot(o):
    return {"n": o.n, "l": len(o.l), "leaf": o.a is not None, "x": o.a.x if o.a is not None else None,
            "pb": (o.param.n.bounds[1] - 5), "pd": o.param.u.default, "po": 0 if list(o.param.sel.objects) == ["hot", "cool", "gray"] else 1 if list(o.param.sel.objects) == ["hot", "cool"] else repr(list(o.param.sel.objects)), "attr": getattr(o, "plainattr", 0), "slot": getattr(o, "slotattr", 0)}


def replay(beh, opts):
    steps = beh["steps"]
    st0 = steps[0]["st"]["orig"]
    cls = TopAttr if opts.get("slots") else Top
    objs = {"orig": cls(a=Leaf() if st0["leaf"] else None)}
    if zlib.crc32(json.dumps(beh, sort_keys=True).encode()) % 2:
        # the object under test has itself been restored from saved state once already
        try:
            objs["orig"] = pickle.loads(pickle.dumps(objs["orig"]))
        except Exception as e:  # noqa
            return {"status": "diverge", "step": 0, "kind": "copy_failed", "msg": "pickling a freshly built object raised %s: %s" % (type(e).__name__, str(e)[:200]),
                    "expected": None, "observed": None, "tags": [], "nontrivial": True, "kf": []}
    objs["orig"].plainattr = 0
    if opts.get("slots"):
        objs["orig"].slotattr = 0
    res = {"status": "ok", "nontrivial": True, "kf": []}

    def fail(i, kind, msg, exp=None, got=None):
        return {"status": "diverge", "step": i, "kind": kind, "msg": msg, "expected": exp, "observed": got, "tags": [], "nontrivial": True, "kf": []}

    for i, s in enumerate(steps):
        a = s["act"]
        n = a["name"]
        del LOG[:]
        try:
            if n == "setn":
                if a.get("route") == "update":
                    objs[a["side"]].param.update(n=a["v"])
                else:
                    objs[a["side"]].n = a["v"]
            elif n == "setpo":
                objs[a["side"]].param.sel.objects = ["hot", "cool"]
                objs[a["side"]].sel = "hot"
            elif n == "setpd":
                objs[a["side"]].param.u.default = a["d"]
            elif n == "setx":
                objs[a["side"]].a.x = a["v"]
            elif n == "attach":
                o = objs[a["side"]]
                if o.a is not None:
                    # the replaced sub-object stays referenced from an ordinary attribute (it is copied along)
                    o.__dict__.setdefault("retired", []).append(o.a)
                o.a = Leaf(x=a["v"])
            elif n == "mutate":
                objs[a["side"]].l.append(1)
            elif n == "setpb":
                objs[a["side"]].param.n.bounds = (0, 5 + a["b"])
            elif n == "setattr":
                objs[a["side"]].plainattr = a["v"]
                if opts.get("slots"):
                    objs[a["side"]].slotattr = a["v"]
            elif n == "copy":
                mech = a["mech"]
                if mech == "deepcopy":
                    objs["copy"] = copy.deepcopy(objs["orig"])
                else:
                    objs["copy"] = pickle.loads(pickle.dumps(objs["orig"], protocol=int(mech[6:])))
        except Exception as e:  # noqa
            return fail(i, "copy_failed" if n == "copy" else "exception", "%s %s raised %s: %s" % (n, a, type(e).__name__, str(e)[:200]))
        side_of = {id(o): sd for sd, o in objs.items()}
        got = sorted((side_of.get(i_, "?"), m) for i_, m in LOG)
        want = sorted((sd, m) for sd, m in s["calls"] if m != "free")
        free = [sd for sd, m in s["calls"] if m == "free"]
        got_cmp = [g for g in got if not (g[1] == "m" and g[0] in free)]
        if got_cmp != want:
            return fail(i, "invocations", "%s %s: dependent methods ran %s, spec expects %s" % (n, {k: v for k, v in a.items() if k != "name"}, got, want), want, got)
        for sd, o in objs.items():
            e = s["st"][sd]
            g = snapshot(o)
            exp = {"n": e["n"], "l": e["l"], "leaf": e["leaf"], "x": e["x"] if e["leaf"] else None, "pb": e["pb"], "pd": e["pd"], "po": e["po"], "attr": e["attr"],
                   "slot": e["attr"] if opts.get("slots") else 0}
            if g != exp:
                kind = "not_faithful" if n == "copy" else "not_independent" if a.get("side") != sd else "value"
                return fail(i, kind, "after %s %s the %s object shows %s, spec expects %s" % (n, {k: v for k, v in a.items() if k != "name"}, sd, g, exp), exp, g)
        if n == "copy":
            o, c = objs["orig"], objs["copy"]
            if c.l is o.l or (o.a is not None and c.a is o.a):
                return fail(i, "shared_state", "the copy shares its list or its sub-object with the original")
            if type(c) is not type(o):
                return fail(i, "not_faithful", "the copy is a %s" % type(c).__name__)
    res["sample"] = beh
    return res
