"""Replay behaviours of spec/RxLazy.tla: an unwatched reactive expression with two inputs piped through a coroutine."""
import asyncio
import warnings
import zlib
import json

from harness.core import import_param
from harness.steploop import StepLoop

param = import_param()
warnings.simplefilter("ignore")


class Holder(param.Parameterized):
    a = param.Integer(0)
    b = param.Integer(0)


def replay(beh, opts):
    steps = beh["steps"]
    loop = StepLoop()
    asyncio._set_running_loop(loop)
    res = {"status": "ok", "nontrivial": any(s["a"] == "tick" and s["what"] in ("store", "drop") for s in steps), "kf": []}
    # three shapes of the same expression: rx inputs with the second one as an extra pipe argument; Parameter inputs;
    # both inputs folded into the pipeline's source, (a * 10 + b).rx.pipe(f)
    shape = ("rxarg", "paramarg", "operand")[zlib.crc32(json.dumps(steps, sort_keys=True).encode()) % 3]
    try:
        futs = {}
        if shape == "paramarg":
            h = Holder()
            ia, ib = h.param.a, h.param.b

            def assign(n, v):
                setattr(h, n, v)
            src = ia.rx()
        else:
            ia, ib = param.rx(0), param.rx(0)

            def assign(n, v):
                (ia if n == "a" else ib).rx.value = v
            src = ia
        if shape == "operand":
            async def f1(ab):
                fu = loop.create_future()
                futs[(ab // 10, ab % 10)] = fu
                return await fu
            expr = (src * 10 + ib).rx.pipe(f1)
        else:
            async def f(a, b):
                fu = loop.create_future()
                futs[(a, b)] = fu
                return await fu
            expr = src.rx.pipe(f, ib)
        order = []        # argument pairs of the evaluations, in creation order (from the behaviour)
        for k, st in enumerate(steps):
            a = st["a"]
            bad = None
            if a == "update":
                assign(st["n"], st["v"])
            elif a == "read":
                try:
                    v = expr.rx.value
                except Exception as e:  # noqa
                    v = repr(e)
                got = v if isinstance(v, int) else 0 if v is param.parameterized.Undefined or v is None else repr(v)
                if got != st["ret"]:
                    bad = ("stale_value" if isinstance(got, int) else "value",
                           "[%s] .rx.value returned %r, spec expects %r (0 stands for `no result yet`)" % (shape, v, st["ret"]))
            elif a == "resolve":
                key = tuple(st["xy"])
                if key not in futs:
                    bad = ("loop", "[%s] spec resolves the awaitable of the evaluation for inputs %r but the coroutine has not created it" % (shape, key))
                else:
                    futs[key].set_result(1000 + 10 * key[0] + key[1])
            elif a == "tick":
                if not loop.tick():
                    bad = ("missing_evaluation", "[%s] spec runs a ready callback but the real loop has nothing ready (an evaluation was not started)" % shape)
            if bad is None:
                # every evaluation the spec has started exists, and no other one does
                want = sum(1 for x in st["obs"]["futs"] if x in ("wait", "woken", "done"))
                if len(futs) != want:
                    bad = ("evaluations", "[%s] after %s: %d evaluation(s) have started, spec expects %d" % (shape, a, len(futs), want))
            if bad is None and k == len(steps) - 1:
                loop.housekeeping()
                n = sum(1 for h in loop._q if loop._is_task_handle(h))
                want = sum(1 for x in st["obs"]["futs"] if x in ("new", "woken"))
                if n != want:
                    bad = ("loop", "[%s] at the end %d callback(s) are ready, spec expects %d" % (shape, n, want))
            if bad:
                return {"status": "diverge", "step": k, "kind": bad[0], "msg": bad[1], "expected": st.get("obs"), "observed": None,
                        "tags": sorted({x for s in steps[:k + 1] for x in s.get("kf", [])}), "nontrivial": True, "kf": []}
    finally:
        asyncio._set_running_loop(None)
    res["sample"] = beh
    res["kf"] = sorted({x for s in steps for x in s.get("kf", [])})
    return res
