"""Replay behaviours of spec/Refs.tla on real objects linked by references."""
from harness.core import import_param
from harness.drivers import _simple

param = import_param()


class S(param.Parameterized):
    __len__ = lambda self: 0          # container-like and currently empty: sources are falsy
    v = param.Integer(0, allow_None=True)
    w = param.Integer(1)

    @param.depends("v")
    def plus_one(self):
        return _inc(self.v)


class SClamp(S):
    """a source that corrects its own value while the assignment is still being dispatched"""
    @param.depends("v", watch=True)
    def _clamp(self):
        if self.v is not None and self.v > 4:
            self.v = 4


class T(param.Parameterized):
    p = param.Integer(1, bounds=(0, 5), allow_refs=True)
    q = param.Integer(1, bounds=(0, 5), allow_refs=True)
    r = param.Parameter([7, 7], allow_refs=True, nested_refs=True)
    k = param.Number(1, bounds=(0, 5), allow_refs=True, constant=True)


class TShared(param.Parameterized):
    p = param.Integer(1, bounds=(0, 5), allow_refs=True, per_instance=False)
    q = param.Integer(1, bounds=(0, 5), allow_refs=True, per_instance=False)
    r = param.Parameter([7, 7], allow_refs=True, nested_refs=True, per_instance=False)
    k = param.Number(1, bounds=(0, 5), allow_refs=True, constant=True, per_instance=False)


class TRo(T):
    k = param.Number(1, bounds=(0, 5), allow_refs=True, readonly=True)


class TSharedRo(TShared):
    k = param.Number(1, bounds=(0, 5), allow_refs=True, readonly=True, per_instance=False)


def _inc(v):
    return None if v is None else v + 1


def _add(a, b):
    return None if a is None or b is None else a + b


def V(tok):
    return None if tok == -1 else tok


class System:
    def __init__(self, beh, opts):
        st = beh["steps"][0]["act"]
        src = _simple_map(st["src"])
        SC = SClamp if st.get("clamp") else S
        self.s = {i: SC(v=V(src[i])) for i in (1, 2)}
        kw = {n: self.mkref(r) for n, r in st["link"].items() if r["k"] != "none"}
        self.t = ((TRo if st.get("ro") else T) if opts.get("perinst", True) else (TSharedRo if st.get("ro") else TShared))(**kw)
        self.cm = None
        self.kf = set()
        self.tolerate = set(opts.get("tolerate", ()))

    def mkref(self, r):
        k = r["k"]
        if k == "param":
            return self.s[r["s"]].param.v
        if k == "paramw":
            return self.s[r["s"]].param.w
        if k == "meth":
            return self.s[r["s"]].plus_one
        if k == "bind1":
            return param.bind(_inc, self.s[r["s"]].param.v)
        if k == "bind2":
            return param.bind(_add, self.s[1].param.v, self.s[2].param.v)
        if k == "rx":
            return self.s[r["s"]].param.v.rx().rx.pipe(_inc)
        if k == "nested":
            return [self.s[r["s"]].param.v, 7]
        if k == "nestedd":
            return {"k": self.s[r["s"]].param.v, "c": 7}
        if k == "nestedt":
            return (self.s[r["s"]].param.v, 7)
        if k == "nestedb":
            return [param.bind(_inc, self.s[r["s"]].param.v), 8]
        if k == "nested2":
            return [[self.s[r["s"]].param.v], 7]
        raise ValueError(k)

    def init(self, st):
        return "ok"

    def do(self, a, st):
        n = a["name"]
        try:
            if n == "source":
                try:
                    so = self.s[a["i"]]
                    if a["both"]:
                        if a["order"] == "vw":
                            so.param.update(v=V(a["v"]), w=a["w"])
                        else:
                            so.param.update(w=a["w"], v=V(a["v"]))
                    else:
                        if so.w != a["w"]:
                            so.w = a["w"]
                        else:
                            so.v = V(a["v"])
                except ValueError:
                    return "invalid"
            elif n in ("ref", "plain"):
                value = self.mkref(a["ref"]) if n == "ref" else [7, 7] if a["n"] == "r" else a["v"]
                if a.get("via") == "trig":
                    # a watcher of the other scalar parameter makes the assignment; that parameter is triggered
                    other = "q" if a["n"] == "p" else "p"
                    w = self.t.param.watch(lambda ev: setattr(self.t, a["n"], value), other)
                    try:
                        self.t.param.trigger(other)
                    finally:
                        self.t.param.unwatch(w)
                else:
                    setattr(self.t, a["n"], value)
            elif n == "trigger":
                self.t.param.trigger(a["n"])
            elif n == "plaineq":
                self.t.k = float(self.t.k)
            elif n == "enterupd":
                self.cm = self.t.param.update(**{a["n"]: a["v"]}) if a["form"] == "kw" else self.t.param.update({a["n"]: a["v"]})
                self.cm.__enter__()
            elif n == "exitupd":
                self.cm.__exit__(None, None, None)
                self.cm = None
        except (ValueError, TypeError):
            return "rejected"
        return "ok"

    def obs(self):
        t = self.t
        r = t.r
        def enc(base, x):
            return base - 1 if x is None else base + x if isinstance(x, int) and not isinstance(x, bool) else ("?", repr(r))
        if type(r) is list and len(r) == 2 and r[1] == 7 and type(r[0]) is list and len(r[0]) == 1:
            rv = enc(500, r[0][0])
        elif type(r) is list and len(r) == 2 and r[1] == 7:
            rv = enc(100, r[0])
        elif type(r) is list and len(r) == 2 and r[1] == 8:
            rv = enc(400, r[0])
        elif type(r) is dict and list(r) == ["k", "c"] and r["c"] == 7:
            rv = enc(200, r["k"])
        elif type(r) is tuple and len(r) == 2 and r[1] == 7:
            rv = enc(300, r[0])
        else:
            rv = ("?", repr(r))
        watched = []
        sync = getattr(type(t.param), "_sync_refs", None)
        for i, s in self.s.items():
            cnt = 0
            seenw = []
            for pn in ("v", "w"):
                for ws in s.param.watchers.get(pn, {}).values():
                    for w in ws:
                        f = w.fn
                        if getattr(f, "__func__", None) is sync and getattr(f, "__self__", None) is not None and f.__self__.self is t \
                                and not any(w is x for x in seenw):
                            seenw.append(w)
                            cnt += 1
            watched.append((i, cnt))
        return {"val": {"p": t.p, "q": t.q, "r": rv, "k": t.k}, "watched": watched}

    def check(self, st, ret, got):
        name = st["act"]["name"]
        tags = set(st.get("kf", []))
        exp = st["obs"]
        if name == "source":
            if st["res"] == "ok" and ret != "ok":
                return ("result", "assigning the source raised although every linked value is valid")
        elif ret != st["res"]:
            return ("result", "%s %s: result %s, spec expects %s" % (name, st["act"], ret, st["res"]))
        if got["val"] != exp["val"]:
            kind = "mirror" if name == "source" else ("rejected_effect" if st["res"] == "rejected" else "value")
            return (kind, "after %s %s: target shows %s, spec expects %s" % (name, {k: v for k, v in st["act"].items() if k != "name"}, got["val"], exp["val"]))
        want = set(exp["watched"])
        for i, cnt in got["watched"]:
            if (cnt > 0) != (i in want) or cnt > 1:
                kind = "leftover_watcher" if cnt > 0 and i not in want else "missing_watcher" if cnt == 0 else "duplicate_watcher"
                return (kind, "after %s %s: source %d carries %d watcher(s) on the target's behalf, spec expects %d"
                        % (name, {k: v for k, v in st["act"].items() if k != "name"}, i, cnt, 1 if i in want else 0))
        return None


def _simple_map(x):
    if isinstance(x, list):
        return {i + 1: v for i, v in enumerate(x)}
    return {int(k): v for k, v in x.items()}


def replay(beh, opts):
    if opts.get("nontrivial") == "rejected":
        return _simple.run(System, beh, opts, nontrivial=lambda b: any(s["res"] == "rejected" for s in b["steps"]))
    return _simple.run(System, beh, opts, nontrivial=lambda b: any(s["act"]["name"] == "source" for s in b["steps"]))
