"""Replay behaviours of spec/Rx.tla: build the expression tree with real rx objects, apply input
updates, compare every read with the specification's value (or exception class)."""
import operator
import warnings

from harness.core import import_param

param = import_param()
warnings.simplefilter("ignore")

OPS = {"add": operator.add, "sub": operator.sub, "mul": operator.mul, "floordiv": operator.floordiv, "mod": operator.mod,
       "lt": operator.lt, "le": operator.le, "eq": operator.eq, "ne": operator.ne, "gt": operator.gt, "ge": operator.ge}
LISTS = {1: [1, 2], 2: [5], 0: []}
DICTS = {0: {"a": 1, "b": 2}, 1: {"a": 1, "c": 5}, 2: {"a": 1}}


def _code(m):
    return sum(m.values()) + (7 if "c" in m else 0)


class S(param.Parameterized):
    v = param.Integer(0)


def _f(u, v):
    return 10 * u + v


def _g(u):
    return u + 1


def key(e):
    import json
    return json.dumps(e, sort_keys=True)


class Builder:
    def __init__(self, env):
        self.s = S(v=env["p"])
        self.inputs = {"a": param.rx(env["a"]), "b": param.rx(env["b"]), "l": param.rx(list(LISTS[env["l"]])), "p": self.s.param.v,
                       "d": param.rx(dict(DICTS[env["d"]]))}
        self.handles = {}

    def rxify(self, x):
        """something usable as a pipeline root"""
        if isinstance(x, param.reactive.rx):
            return x
        return param.rx(x)

    def build(self, e):
        k = key(e)
        if k in self.handles:
            return self.handles[k]
        h = self._build(e)
        self.handles[k] = h
        return h

    def _build(self, e):
        kd = e["k"]
        if kd == "in":
            return self.inputs[e["n"]]
        if kd == "c":
            return e["v"]
        if kd == "bin":
            x, y = self.build(e["x"]), self.build(e["y"])
            if e["x"]["k"] == "c":
                return OPS[e["op"]](x, self.rxify(y))       # reflected form: constant <op> rx
            return OPS[e["op"]](self.rxify(x), y)
        if kd == "un":
            x = self.rxify(self.build(e["x"]))
            return {"neg": lambda: -x, "abs": lambda: abs(x), "not": lambda: x.rx.not_(), "bool": lambda: x.rx.bool(),
                    "len": lambda: x.rx.len()}[e["op"]]()
        if kd == "idx":
            return self.rxify(self.build(e["x"]))[self.build(e["y"])]
        if kd == "where":
            return self.rxify(self.build(e["c"])).rx.where(self.build(e["x"]), self.build(e["y"]))
        if kd == "and":
            return self.rxify(self.build(e["x"])).rx.and_(self.build(e["y"]))
        if kd == "or":
            return self.rxify(self.build(e["x"])).rx.or_(self.build(e["y"]))
        if kd == "inl":
            return self.rxify(self.build(e["x"])).rx.in_(self.build(e["y"]))
        if kd == "pipe":
            return self.rxify(self.build(e["x"])).rx.pipe(_f, self.build(e["y"]))
        if kd == "pipekw":
            return self.rxify(self.build(e["x"])).rx.pipe(_f, v=self.build(e["y"]))
        if kd == "isnone":
            x = self.rxify(self.build(e["x"]))
            return x.rx.is_not(None) if e["neg"] else x.rx.is_(None)
        if kd == "dcode":
            return self.rxify(self.build(e["x"])).rx.pipe(_code)
        if kd == "map":
            return self.rxify(self.build(e["x"])).rx.map(_g)
        if kd == "count":
            return self.rxify(self.build(e["x"])).count(self.build(e["y"]))
        if kd == "bindf":
            return param.rx(param.bind(_f, self.build(e["x"]), self.build(e["y"])))
        raise ValueError(kd)


def conv(v):
    t = v["t"]
    if t == "i":
        return v["v"]
    if t == "b":
        return v["v"]
    if t == "l":
        return list(v["items"])
    return ("error", v["e"])


def read(h):
    try:
        v = h.rx.value
    except Exception as e:  # noqa
        return ("error", type(e).__name__)
    return v


def same(a, b):
    return type(a) is type(b) and a == b


def replay(beh, opts):
    steps = beh["steps"]
    st0 = steps[0]
    tolerate = set(opts.get("tolerate", ()))
    kf = set()
    bld = Builder(st0["env"])
    try:
        top = bld.build(st0["expr"])
    except Exception as e:  # noqa
        return {"status": "diverge", "step": 0, "kind": "build", "msg": "building %s raised %s: %s" % (st0["expr"], type(e).__name__, e),
                "tags": sorted(st0.get("kf", [])), "nontrivial": True, "kf": [], "expected": None, "observed": None}
    seen = []
    if st0["watched"]:
        top.rx.watch(lambda v: seen.append(v))
    res = {"status": "ok", "nontrivial": any(s["a"] == "update" for s in steps) and any(s["a"] in ("read", "derive") for s in steps), "kf": []}
    for i, st in enumerate(steps[1:], 1):
        bad = None
        if st["a"] == "update":
            n, v = st["n"], st["v"]
            del seen[:]
            try:
                if n == "p":
                    bld.s.v = v
                elif n == "l":
                    bld.inputs["l"].rx.value = list(LISTS[v])
                elif n == "d":
                    bld.inputs["d"].rx.value = dict(DICTS[v])
                else:
                    bld.inputs[n].rx.value = v
            except Exception as e:  # noqa
                bad = ("update_raised", "updating input %s to %r raised %s: %s" % (n, v, type(e).__name__, e))
            if bad is None and st0["watched"]:
                want = [conv(x) for x in st["notify"]]
                got = [x for x in seen]
                # (repeated announcements of an unchanged value are not claimed either way: fold them)
                folded = [x for j, x in enumerate(got) if j == 0 or not same(x, got[j - 1])]
                if want and not (folded and same(folded[-1], want[-1])):
                    bad = ("watch_missing", "after %s=%r the .rx.watch callback saw %r, spec expects the fresh value %r" % (n, v, got, want[-1]))
                elif not want and any(True for x in folded):
                    bad = None      # a call with the unchanged value is not forbidden by the property
        else:
            h = bld.build(st["sub"])
            if not hasattr(h, "rx"):
                continue
            if st["a"] == "derive":
                h = bld.rxify(h) + 1          # a fresh expression on top of the (possibly already read, since invalidated) handle
            got = read(h)
            want = conv(st["val"])
            ok = (isinstance(got, tuple) and isinstance(want, tuple) and got == want) or (not isinstance(got, tuple) and not isinstance(want, tuple) and same(got, want))
            if not ok:
                kind = "stale" if not isinstance(got, tuple) else "exception"
                bad = (kind, "reading %s (inputs now %s): got %r, plain Python gives %r" % (st["sub"], "after updates", got, want))
        if bad:
            open_here = set(st.get("kf", [])) & tolerate
            if open_here and bad[0] in ("stale", "watch_missing"):
                kf.update(open_here)
                break
            return {"status": "diverge", "step": i, "kind": bad[0], "msg": bad[1], "expected": st.get("val") or st.get("notify"), "observed": None,
                    "tags": sorted({t for s in steps[:i + 1] for t in s.get("kf", [])}), "nontrivial": True, "kf": sorted(kf)}
    res["kf"] = sorted(kf)
    res["sample"] = beh
    return res
