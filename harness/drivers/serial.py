"""Replay the tables of spec/Serial.tla: serialize / deserialize real parameter values and validate
the real serialized state against the real schema with an independent validator."""
import datetime as dt
import json
import os
import subprocess

from harness.core import import_param, VERIF, MachineryError

param = import_param()
NOB = -9999
_SERVER = None


def validator(schema, instances):
    global _SERVER
    if _SERVER is None or _SERVER.poll() is not None:
        _SERVER = subprocess.Popen(["python3-vt", os.path.join(VERIF, "harness", "jsvalidate_server.py")],
                                   stdin=subprocess.PIPE, stdout=subprocess.PIPE, text=True, bufsize=1)
    _SERVER.stdin.write(json.dumps({"schema": schema, "instances": instances}) + "\n")
    _SERVER.stdin.flush()
    line = _SERVER.stdout.readline()
    if not line:
        raise MachineryError("json-schema validator subprocess died")
    return json.loads(line)


def YD(d):
    """day token -> (year, month, day): 2, 3 are days of January 2020; 22, 23 are 2 and 3 January of the year 33"""
    return (33, 1, d - 20) if d >= 20 else (2020, 1, d)


def mk(v):
    k = v["k"]
    if k == "none":
        return None
    if k == "int":
        return v["n2"] // 2
    if k == "float":
        return v["n2"] / 2.0 + (0.0 if v["n2"] != 9 else 1e-9)
    if k == "str":
        return {"unicode": "café \U0001F600 \"q\" \\ \n", "": ""}.get(v["s"], v["s"])
    if k == "bool":
        return v["b"]
    if k == "date":
        return dt.date(*YD(v["t2"] // 2))
    if k == "datetime":
        y, m, d = YD(v["t2"] // 2)
        return dt.datetime(y, m, d, 12, 30, 15, 250) if v["t2"] % 2 else dt.datetime(y, m, d)
    if k == "tuple":
        return tuple(mk(x) for x in v["items"])
    if k == "list":
        return [mk(x) for x in v["items"]]
    if k == "dict":
        return {key: mk(x) for key, x in zip(v["keys"], v["items"])}
    raise ValueError(k)


def tojson(j):
    k = j["j"]
    if k == "null":
        return None
    if k == "bool":
        return j["b"]
    if k == "num":
        return j["n2"] // 2 if j["int"] else j["n2"] / 2.0 + (0.0 if j["n2"] != 9 else 1e-9)
    if k == "str":
        if "t2" in j:
            y, m, d = YD(j["t2"] // 2)
            if j["s"] == "date":
                return "%04d-01-%02d" % (y, d)
            return "%04d-01-%02dT12:30:15.000250" % (y, d) if j["t2"] % 2 else "%04d-01-%02dT00:00:00.000000" % (y, d)
        return mk({"k": "str", "s": j["s"]})
    if k == "arr":
        return [tojson(x) for x in j["items"]]
    if k == "obj":
        return {key: tojson(x) for key, x in zip(j["keys"], j["items"])}
    raise ValueError(k)


def same(a, b):
    if type(a) is not type(b):
        return False
    if isinstance(a, (list, tuple)):
        return len(a) == len(b) and all(same(x, y) for x, y in zip(a, b))
    if isinstance(a, dict):
        return a.keys() == b.keys() and all(same(a[k], b[k]) for k in a)
    return a == b


def samejson(a, b):
    """JSON equality that keeps 1 and 1.0, true and 1 apart"""
    return same(a, b)


def bound(x):
    return None if x == NOB else (x // 2 if x % 2 == 0 else x / 2.0)


def declare(t, c, default):
    kw = {"allow_None": c["an"]}
    if t in ("Integer", "Number", "Range") and (c["lo"] != NOB or c["hi"] != NOB):
        kw["bounds"] = (bound(c["lo"]), bound(c["hi"]))
        kw["inclusive_bounds"] = (c["il"], c["ih"])
    if c.get("soft"):
        kw["softbounds"] = (3, 3.5)
    if t == "Tuple":
        kw["length"] = 2
    if t == "List" and c["it"] != "none":
        kw["item_type"] = {"int": int, "str": str, "float": float}[c["it"]]
    if c.get("dn"):
        kw.pop("default", None)
        default = None
    if t in ("Selector", "ListSelector"):
        kw["objects"] = {"strs": ["a", "b"], "ints": [1, 2], "mixed": [1, "a", 1.5], "dictints": {"one": 1, "two": 2}, "empty": []}[c["objs"]]
    if t == "Selector" and not c.get("cos", True):
        kw["check_on_set"] = False
    if t == "ClassSelector":
        kw["class_"] = {"int": int, "str": str, "float": float, "intstr": (int, str), "bool": bool, "list": list, "dict": dict}[c["cls"]]
    if c.get("dn"):
        return getattr(param, t)(**kw)
    return getattr(param, t)(default=default, **kw)


def strict_loads(text):
    def bad(x):
        raise ValueError("non-standard JSON constant %s" % x)
    return json.loads(text, parse_constant=bad)


class ApiError(Exception):
    """a public param call raised on input that is inside the property's domain"""


def api(what, fn, *a, **kw):
    try:
        return fn(*a, **kw)
    except Exception as e:  # noqa
        raise ApiError("%s raised %s: %s" % (what, type(e).__name__, str(e)[:200]))


def replay(tab, opts):
    try:
        return _replay(tab, opts)
    except ApiError as e:
        t, c = tab["t"], tab["c"]
        return {"status": "diverge", "step": 0, "kind": "exception", "msg": "%s %s: %s" % (t, {k: v for k, v in c.items() if v not in (NOB,)}, e),
                "expected": None, "observed": None, "tags": [], "nontrivial": True, "kf": []}


def _replay(tab, opts):
    t, c = tab["t"], tab["c"]
    cases = sorted(tab["cases"], key=lambda cs: json.dumps(cs["v"], sort_keys=True))
    res = {"status": "ok", "nontrivial": len(cases) > 1 or bool(tab["probes"]), "kf": []}
    mode = opts.get("mode", "both")

    def fail(kind, msg, exp=None, got=None):
        return {"status": "diverge", "step": 0, "kind": kind, "msg": "%s %s: %s" % (t, {k: v for k, v in c.items() if v not in (NOB,)}, msg),
                "expected": exp, "observed": got, "tags": [], "nontrivial": True, "kf": []}

    nn = [cs for cs in cases if cs["v"]["k"] != "none"] or cases
    P = type("P", (param.Parameterized,), {"x": declare(t, c, mk(nn[0]["v"])), "values": param.Integer(3)})
    serialized = []
    # an instance that owns Parameter copies from the start and never sets x: it follows the class-level value
    follower = P()
    follower.param["x"]
    api("serialize_value('x')", follower.param.serialize_value, "x")
    for cs in cases:
        v = mk(cs["v"])
        want = tojson(cs["ser"])
        # the default None of a Selector / ListSelector declared without a default is a state of every fresh
        # object, but not an assignable value: it is observed on a fresh class (C16) and not rebuilt (C15)
        born_none = v is None and c.get("dn") and not c["an"]
        if born_none and mode == "roundtrip":
            continue
        for level in ("instance", "class"):
            if born_none:
                P0 = type("P", (param.Parameterized,), {"x": declare(t, c, None), "values": param.Integer(3)})
                owner = P0() if level == "instance" else P0
            elif level == "instance":
                owner = P(x=v)
            else:
                P.x = v
                owner = P
            text = api("serialize_parameters(subset=['x'])", owner.param.serialize_parameters, subset=["x"])
            try:
                got = strict_loads(text)
            except ValueError as e:
                return fail("not_json", "%s level: serialize_parameters produced non-standard JSON %r: %s" % (level, text, e))
            if set(got) != {"x"}:
                return fail("subset", "%s level: subset=['x'] produced keys %s" % (level, sorted(got)))
            if mode in ("both", "roundtrip") and not samejson(got["x"], want):
                return fail("serialized", "%s level: %r serialized as %r, spec expects %r" % (level, v, got["x"], want), want, got["x"])
            if level == "class" and not born_none and mode in ("both", "roundtrip"):
                ftext = api("serialize_parameters(subset=['x']) of an instance following the class", follower.param.serialize_parameters, subset=["x"])
                # (a parameter declared instantiate=True gave the instance its own copy of the default at construction: it does not follow)
                if not P.param["x"].instantiate and not samejson(strict_loads(ftext)["x"], want):
                    return fail("serialized", "after the class-level assignment of %r an instance that never set x serializes %s, spec expects %r" % (v, ftext, want), want, ftext)
                fone = api("serialize_value('x') of an instance following the class", follower.param.serialize_value, "x")
                if not samejson(strict_loads(ftext)["x"], strict_loads(fone)):
                    return fail("serialized", "an instance that never set x: serialize_parameters gives %s, serialize_value gives %s" % (ftext, fone), fone, ftext)
            if level == "instance" and not born_none:
                serialized.append(got["x"])
            if born_none and mode in ("both", "schema"):
                # validated against the schema of the class it was born in (the class default is still None there)
                try:
                    schema0 = json.loads(json.dumps(owner.param.schema(subset=["x"])["x"]))
                except Exception as e:  # noqa
                    return fail("schema", "param.schema() raised %s: %s" % (type(e).__name__, e))
                out0 = validator(schema0, [got["x"]] + serialized)
                if not out0["wellformed"]:
                    return fail("schema_malformed", "param.schema() is not a well-formed JSON Schema: %s -- %s" % (out0["error"], schema0))
                if not out0["valid"][0]:
                    return fail("valid_state_rejected", "%s level: the state a fresh object is born in (%r) does not validate against the generated schema %s" % (level, got["x"], schema0), True, False)
            if mode in ("both", "roundtrip") and not born_none:
                kwargs = api("deserialize_parameters(%s)" % text, P.param.deserialize_parameters, text)
                try:
                    back = P(**kwargs).x
                except Exception as e:  # noqa
                    return fail("rebuild", "%s level: deserialize_parameters(%s) gave %r which the constructor rejects: %s" % (level, text, kwargs, e))
                if not same(back, v):
                    return fail("roundtrip", "%s level: %r (%s) came back as %r (%s) via %s" % (level, v, type(v).__name__, back, type(back).__name__, text),
                                repr(v), repr(back))
                if isinstance(back, (list, dict)):
                    # what was handed out is the caller's: changing it in place must not change what the
                    # same text deserializes to next time
                    for victim in (back, kwargs["x"]):
                        if isinstance(victim, list):
                            victim.append("mutated")
                        elif isinstance(victim, dict):
                            victim["mutated"] = 1
                    again = api("rebuilding from %s a second time, after the first result was mutated in place," % text,
                                lambda: P(**P.param.deserialize_parameters(text)).x)
                    if not same(again, v):
                        return fail("roundtrip", "%s level: deserializing %s a second time, after the first result was mutated in place, gave %r (original %r)"
                                    % (level, text, again, v), repr(v), repr(again))
                one = api("serialize_value('x')", owner.param.serialize_value, "x")
                if not samejson(strict_loads(one), want):
                    return fail("serialize_value", "serialize_value gave %s, spec expects %r" % (one, want))
                back1 = api("deserialize_value('x', %s)" % one, P.param.deserialize_value, "x", one)
                if not same(back1, v):
                    return fail("deserialize_value", "deserialize_value(%s) gave %r, original %r" % (one, back1, v))
        if mode in ("both", "roundtrip"):
            o = P(x=v, values=5)
            for sb in tab["subsets"]:
                for sub in (list(sb["sub"]), tuple(sb["sub"]), set(sb["sub"])):
                    text = api("serialize_parameters(subset=%r)" % (sub,), o.param.serialize_parameters, subset=sub)
                    got = strict_loads(text)
                    if set(got) != set(sb["keys"]):
                        return fail("subset", "serialize_parameters(subset=%r) produced keys %s, spec expects %s" % (sub, sorted(got), sorted(sb["keys"])))
                    kwargs = api("deserialize_parameters(%s, subset=%r)" % (text, sub), P.param.deserialize_parameters, text, subset=sub)
                    if set(kwargs) != set(sb["keys"]):
                        return fail("subset", "deserialize_parameters(%s, subset=%r) produced keys %s" % (text, sub, sorted(kwargs)))
                    o2 = api("P(**%r)" % (kwargs,), P, **kwargs)
                    for k in sb["keys"]:
                        if not same(getattr(o2, k), getattr(o, k)):
                            return fail("roundtrip", "subset=%r: %s came back as %r, original %r" % (sub, k, getattr(o2, k), getattr(o, k)))
                    alltext = api("serialize_parameters()", o.param.serialize_parameters)
                    kw2 = api("deserialize_parameters(<all>, subset=%r)" % (sub,), P.param.deserialize_parameters, alltext, subset=sub)
                    if set(kw2) != set(sb["keys"]):
                        return fail("subset", "deserialize_parameters(<all>, subset=%r) produced keys %s" % (sub, sorted(kw2)))
            full = strict_loads(api("serialize_parameters()", P(x=v).param.serialize_parameters))
            if set(full) != {"name", "x", "values"}:
                return fail("keys", "serialize_parameters() without subset has keys %s" % sorted(full))
    if mode in ("both", "schema") and tab["schema"]["ty"] != "none":
        try:
            schema = P.param.schema(subset=["x"])["x"]
        except Exception as e:  # noqa
            return fail("schema", "param.schema() raised %s: %s" % (type(e).__name__, e))
        try:
            schema = json.loads(json.dumps(schema))
        except Exception as e:  # noqa
            return fail("schema", "the schema is not JSON-serializable: %s" % e)
        probes = sorted(tab["probes"], key=lambda p: p["j"]["n2"])
        out = validator(schema, serialized + [tojson(p["j"]) for p in probes])
        if not out["wellformed"]:
            return fail("schema_malformed", "param.schema() is not a well-formed JSON Schema: %s -- %s" % (out["error"], schema))
        for inst, ok in zip(serialized, out["valid"]):
            if not ok:
                return fail("valid_state_rejected", "serialized valid state %r does not validate against the generated schema %s" % (inst, schema), True, False)
        for p, ok in zip(probes, out["valid"][len(serialized):]):
            if ok != p["valid"]:
                return fail("bounds_in_schema", "number %r %s against the generated schema %s, spec says it must %s"
                            % (tojson(p["j"]), "validates" if ok else "does not validate", schema, "validate" if p["valid"] else "be rejected"), p["valid"], ok)
        if t in ("Integer", "Number"):
            # per-instance constraints: the instance's schema follows the instance's Parameter
            inst = P()
            inst.param.x.bounds = (-10, 10)
            inst.param.x.inclusive_bounds = (True, True)
            inst.x = -9
            ischema = json.loads(json.dumps(inst.param.schema(subset=["x"])["x"]))
            state = strict_loads(inst.param.serialize_parameters(subset=["x"]))["x"]
            out2 = validator(ischema, [state, 11, -11])
            if not out2["wellformed"] or out2["valid"] != [True, False, False]:
                return fail("instance_schema", "instance with per-instance bounds (-10, 10) and value -9: its own schema %s gives verdicts %s for [-9, 11, -11], expected [valid, rejected, rejected]"
                            % (ischema, out2["valid"]))
        exp_ty = tab["schema"]["ty"]
        if exp_ty not in ("any",) and schema.get("type") != exp_ty:
            return fail("schema_type", "schema type is %r, spec expects %r: %s" % (schema.get("type"), exp_ty, schema))
    if tab.get("readonly") and mode in ("both", "roundtrip"):
        # last, because a divergence ends the table: a class with a read-only and a constant parameter
        R = type("R", (param.Parameterized,), {"x": declare(t, c, mk(nn[0]["v"])), "ro": param.Integer(7, readonly=True),
                                               "k": param.Integer(3, constant=True)})
        r0 = R(x=mk(nn[0]["v"]), k=4)
        text = api("serialize_parameters()", r0.param.serialize_parameters)
        kwargs = api("deserialize_parameters(%s)" % text, R.param.deserialize_parameters, text)
        try:
            r1 = R(**kwargs)
        except Exception as e:  # noqa
            f = fail("readonly_rebuild", "deserialize_parameters(%s) gave %r which the constructor rejects: %s" % (text, kwargs, e))
            f["tags"] = sorted(tab.get("kf", []))
            return f
        if (r1.x, r1.ro, r1.k) != (r0.x, r0.ro, r0.k):
            return fail("roundtrip", "object with read-only / constant parameters came back as %r, original %r" % ((r1.x, r1.ro, r1.k), (r0.x, r0.ro, r0.k)))
    res["sample"] = {"t": t, "c": c, "cases": cases[:3]}
    return res
