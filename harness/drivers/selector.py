"""Replay behaviours of spec/SelectorObjs.tla on a real Selector / ListSelector."""
import logging

from harness.core import import_param
from harness.drivers import _simple

param = import_param()
logging.getLogger("param").setLevel(logging.CRITICAL)

OBJ = {i: "o%d" % i for i in range(1, 9)}
OBJ[3] = None          # one of the objects is None
KEY = {i: "k%d" % i for i in range(1, 9)}
ROBJ = {v: k for k, v in OBJ.items()}
RKEY = {v: k for k, v in KEY.items()}


class System:
    def __init__(self, beh, opts):
        self.dict, self.multi = beh["dictdecl"], beh["multi"]
        o0 = beh["steps"][0]["obs"]
        if self.dict:
            objects = {KEY[k]: OBJ[v] for k, v in o0["names"]}
        else:
            objects = [OBJ[v] for v in o0["objs"]]
        if self.multi:
            sel = param.ListSelector(objects=objects, default=[OBJ[v] for v in o0["value"]])
        else:
            sel = param.Selector(objects=objects, default=OBJ[o0["value"]])
        self.P = type("P", (param.Parameterized,), {"s": sel})
        self.level = opts.get("level", "inst")
        # all operations act on one dispatch owner: the class and its Parameter, or one
        # instance and its (lazily copied) per-instance Parameter
        self.owner = self.P if self.level == "class" else self.P()
        self.notes = []
        self.owner.param.watch(lambda e: self.notes.append(e.new), "s", what="objects", onlychanged=False)
        self.before = 0

    @property
    def sel(self):
        return self.owner.param.s

    def init(self, st):
        return 0

    def do(self, a, st):
        p = self.sel
        n = a["name"]
        self.before = len(self.notes)
        o = p.objects
        if n == "append":
            r = o.append(OBJ[a["x"]])
        elif n == "insert":
            r = o.insert(a["i"], OBJ[a["x"]])
        elif n == "extend":
            xs = [OBJ[x] for x in a["xs"]]
            r = o.extend(iter(xs)) if len(xs) == 2 else o.extend(xs)      # any iterable, also a one-shot iterator
        elif n == "setindex":
            o[a["i"]] = OBJ[a["x"]]
            r = None
        elif n == "setslice":
            xs = [OBJ[x] for x in a["xs"]]
            o[a["lo"]:a["hi"]] = iter(xs) if len(xs) == 2 else xs       # any iterable, as for a list
            r = None
        elif n == "grab":
            self.h = o
            return 0
        elif n == "popvia":
            r = self.h.pop(a["i"])
        elif n == "popkeyvia":
            r = self.h.pop(KEY[a["k"]])
        elif n == "appendvia":
            r = self.h.append(OBJ[a["x"]])
        elif n == "popindex":
            r = o.pop(a["i"])
        elif n == "poplast":
            r = o.pop()
        elif n == "remove":
            r = o.remove(OBJ[a["x"]])
        elif n == "clear":
            r = o.clear()
        elif n == "setkey":
            o[KEY[a["k"]]] = OBJ[a["x"]]
            r = None
        elif n == "update":
            prs = [(KEY[k], OBJ[x]) for k, x in a["prs"]]
            nkw = a["nkw"]
            pos, kw = prs[:len(prs) - nkw], dict(prs[len(prs) - nkw:])
            # alternate between the mapping form and the pairs form
            r = o.update(**kw) if not pos else o.update(dict(pos) if len(pos) != 1 else pos, **kw)
        elif n == "popkeydefault":
            r = o.pop(KEY[a["k"]], OBJ[a["x"]])
        elif n == "popkey":
            r = o.pop(KEY[a["k"]])
        elif n == "replace":
            xs = [OBJ[x] for x in a["xs"]]
            if self.dict:
                mine = {KEY[i]: x for i, x in enumerate(xs, 1)}
                p.objects = mine
                mine["junk"] = "junk"       # the mapping handed in stays the caller's: the Selector is not affected
            else:
                p.objects = xs
            r = None
        elif n == "setvaluename":
            try:
                self.owner.s = [KEY[a["k"]]] if self.multi else KEY[a["k"]]
                return 1
            except ValueError:
                return 0
        elif n in ("setvalue", "setvalues"):
            v = [OBJ[x] for x in a["vs"]] if n == "setvalues" else OBJ[a["v"]]
            try:
                self.owner.s = v
                return 1
            except ValueError:
                return 0
        else:
            raise ValueError(n)
        if n in ("popindex", "poplast", "popkey", "popkeydefault", "popvia", "popkeyvia"):
            return ROBJ.get(r, ("?", repr(r)))       # (the object handed back may be None: it is one of the objects)
        return 0 if r is None else ("?", repr(r))

    def obs(self):
        p = self.sel
        val = self.owner.s
        return {"objs": [ROBJ.get(x, repr(x)) for x in list(p.objects)] if not p.names else
                        [ROBJ.get(x, repr(x)) for x in p.objects.values()],
                "raw": [ROBJ.get(x, repr(x)) for x in p._objects] if hasattr(p, "_objects") else None,
                "names": [[RKEY.get(k, repr(k)), ROBJ.get(v, repr(v))] for k, v in p.names.items()],
                "items": [ROBJ.get(v, repr(v)) for k, v in p.objects.items()],
                "range": [ROBJ.get(v, repr(v)) for v in p.get_range().values()],
                "rangekeys": list(p.get_range().keys()),
                "h": [ROBJ.get(x, repr(x)) for x in list.__iter__(self.h)] if getattr(self, "h", None) is not None else [0],
                "value": [ROBJ.get(x) for x in val] if self.multi else ROBJ.get(val, 0)}

    def check(self, st, ret, got):
        exp = st["obs"]
        name = st["act"]["name"]
        if ret != st["ret"]:
            return ("ret", "%s returned %r, spec expects %r" % (name, ret, st["ret"]))
        for view in ("objs", "items", "range"):
            if got[view] != exp["objs"]:
                return ("views", "after %s the %s view is %r, spec expects %r" % (name, view, got[view], exp["objs"]))
        if got["raw"] is not None and got["raw"] != exp["objs"]:
            return ("views", "after %s list(objects) is %r, spec expects %r" % (name, got["raw"], exp["objs"]))
        if got["names"] != exp["names"]:
            return ("names", "after %s names is %r, spec expects %r" % (name, got["names"], exp["names"]))
        if exp["names"] and got["rangekeys"] != [KEY[k] for k, _ in exp["names"]]:
            return ("names", "after %s get_range() keys %r, spec expects %r" % (name, got["rangekeys"], exp["names"]))
        if got["h"] != exp["h"]:
            return ("handle", "after %s the handle taken earlier holds %r, spec expects %r" % (name, got["h"], exp["h"]))
        if got["value"] != exp["value"]:
            return ("value", "after %s value is %r, spec expects %r" % (name, got["value"], exp["value"]))
        n = len(self.notes) - self.before
        want = st["notes"]
        if (want in (0, 1) and n != want) or (want == 2 and n > 1):
            return ("notifications", "%s caused %d `objects` notifications, spec expects %s"
                    % (name, n, "at most 1" if want == 2 else want))
        return None


def replay(beh, opts):
    res = None
    for level in ("inst", "class"):
        res = _replay1(beh, dict(opts, level=level))
        if res["status"] != "ok":
            res["msg"] = "[%s level] %s" % (level, res.get("msg"))
            break
    return res


def _replay1(beh, opts):
    return _simple.run(System, beh, opts,
                       nontrivial=lambda b: any(s["act"]["name"] not in ("init", "setvalue", "setvalues", "setvaluename", "grab") for s in b["steps"]))
