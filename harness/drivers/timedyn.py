"""Replay behaviours of spec/TimeDyn.tla on time-dependent numbergen generators.

The specification predicts *terms* <<generator identity, time>>; the driver checks that the
mapping term -> observed float is a function (across visiting orders, instances and behaviours
replayed by this process) and that distinct times give the values of their own terms."""
import copy
import json
import logging
import pickle
import zlib

from harness.core import import_param
from harness.drivers import _simple

param = import_param()
logging.disable(logging.WARNING)      # numbergen warns on every float time ("Casting type 'float' ...")
from fractions import Fraction
import numbergen  # noqa: E402

logging.getLogger("param").setLevel(logging.CRITICAL)
TABLE = {}          # (generator identity, time) -> value, shared by all behaviours of this worker


class NotTimeDependent(param.Number):
    """a Number whose dynamic values are produced at every read, whatever param.Dynamic.time_dependent says"""
    time_dependent = False


class P(param.Parameterized):
    a = param.Number(default=0)
    b = param.Number(default=0)
    c = param.Number(default=0, constant=True)
    e = NotTimeDependent(default=0)


class Counter:
    """a plain callable that is not a function of time: the k-th production returns k"""
    def __init__(self):
        self.k = 0

    def __call__(self):
        if getattr(self, "fail_next", False):
            self.fail_next = False
            raise RuntimeError("the generator failed")
        self.k += 1
        return float(self.k)


BASE = 10 ** 6
FAMILIES = ["uniform", "normal", "randint", "choice", "sum", "offset"]


def make_gen(family, name):
    """a time-dependent generator identified by (name, seed): its value is a function of that identity and the time"""
    kw = dict(name=name, seed=7, time_dependent=True)
    if family == "uniform":
        return numbergen.UniformRandom(**kw)
    if family == "normal":
        return numbergen.NormalRandom(mu=1.0, sigma=2.0, **kw)
    if family == "randint":
        return numbergen.UniformRandomInt(lbound=0, ubound=2 ** 60, **kw)
    if family == "choice":
        return numbergen.Choice(choices=[x * 1.25 for x in range(5000)], **kw)
    if family == "offset":
        return numbergen.UniformRandomOffset(mean=3.0, range=2.0, **kw)
    if family == "sum":
        return numbergen.UniformRandom(**kw) + numbergen.NormalRandom(name=name + "-n", seed=3, time_dependent=True)
    raise ValueError(family)


class System:
    def __init__(self, beh, opts):
        param.Dynamic.time_dependent = True
        # how spec times are represented: small ints (cached objects), large ints created afresh at
        # every jump (equal but not identical), or Fractions
        self.enc = opts.get("enc", "small")
        self.family = opts.get("family", "uniform")
        # (the one global Time object is kept: numbergen captured it at import)
        self.tf = param.Dynamic.time_fn
        self.tf._pushed_state = []
        self.tf(self.T(0), time_type={"fraction": Fraction, "float": float}.get(self.enc, int))
        gen = opts["gens"]        # slot -> identity
        inst = opts["insts"]      # slot -> instance number
        self.objs = {}
        self.slot = {}
        used = {}
        built = {}
        parity = zlib.crc32(json.dumps(beh, sort_keys=True).encode()) // 7 % 2
        for s in sorted(gen, key=int):
            i = inst[s]
            if i == 0:
                # the class-level default generator of a fresh class, used through the class
                g = make_gen(self.family, gen[s])
                self.pc = type("PC", (param.Parameterized,), {"d": param.Number(default=g)})
                self.slot[int(s)] = (self.pc, "d", gen[s])
                continue
            if i not in self.objs:
                self.objs[i] = P()
                used[i] = 0
            if gen[s] == "N":
                g = Counter()
                setattr(self.objs[i], "e", g)
                self.slot[int(s)] = (self.objs[i], "e", gen[s])
                continue
            pname = "ab"[used[i]]
            used[i] += 1
            if gen[s] == "K":
                g = Counter()
            elif gen[s] in built:
                # a second generator with the same name and seed is not constructed but obtained from the
                # first by a deep copy or a pickle round trip (before the first was ever used)
                g = copy.deepcopy(built[gen[s]]) if parity else pickle.loads(pickle.dumps(built[gen[s]]))
            else:
                g = built[gen[s]] = make_gen(self.family, gen[s])
            setattr(self.objs[i], pname, g)
            self.slot[int(s)] = (self.objs[i], pname, gen[s])
        self.cms = []

    def T(self, t):
        if self.enc == "small":
            return t
        if self.enc == "fraction":
            return Fraction(t * 3 + 1, 3)
        if self.enc == "float":
            return t + 0.5
        return int(str(BASE + t))          # a new int object every time

    def D(self, d):
        return Fraction(d) if self.enc == "fraction" else float(d) if self.enc == "float" else d

    def unT(self, x):
        if self.enc == "small":
            return x
        if self.enc == "fraction":
            return (x * 3 - 1) / 3
        if self.enc == "float":
            return x - 0.5
        return x - BASE

    def init(self, st):
        return None

    def do(self, a, st):
        n = a["name"]
        if n == "settime":
            self.tf(self.T(a["t"]))
        elif n == "advance":
            if a["d"] >= 0:
                self.tf += self.D(a["d"])
            else:
                self.tf -= self.D(-a["d"])
            param.Dynamic.time_fn = self.tf
        elif n == "enter":
            self.cms.append(self.tf.__enter__())
        elif n == "exit":
            if self.enc in ("fraction", "float"):
                # inside the context the time type is switched to int (which also moves the time, as any jump
                # inside the context may); leaving the context must still restore the entry time exactly
                self.tf(int(self.tf()), time_type=int)
            if a["how"] == "error":
                if self.tf.__exit__(RuntimeError, RuntimeError("body"), None):
                    self.fault = ("context_exit", "leaving the time context with a RuntimeError swallowed the exception")
            elif a["how"] == "stop":
                if not self.tf.__exit__(StopIteration, StopIteration(), None):
                    self.fault = ("context_exit", "leaving the time context with StopIteration did not swallow it (documented: StopIteration ends the context quietly)")
            else:
                self.tf.__exit__(None, None, None)
            self.cms.pop()
            if self.enc in ("fraction", "float"):
                self.tf(self.tf(), time_type={"fraction": Fraction, "float": float}[self.enc])     # back to the exact type
        else:
            obj, pname, _ = self.slot[a["s"]]
            if n == "read":
                return getattr(obj, pname)      # (obj is the class itself for the class-level slot)
            if n == "inspect":
                return obj.param.inspect_value(pname)
            if n == "force":
                return obj.param.force_new_dynamic_value(pname)
            if n == "readfail":
                gen = obj.param.get_value_generator(pname)
                gen.fail_next = True
                try:
                    getattr(obj, pname)
                except RuntimeError:
                    return None
                finally:
                    gen.fail_next = False
                return "no exception"
            if n == "rejectupd":
                try:
                    obj.param.update(**{pname: "not a number"})
                except ValueError:
                    return None
                return "accepted"
            if n == "reject":
                gen = obj.param.get_value_generator(pname)
                try:
                    obj.c = gen
                except TypeError:
                    return None
                raise AssertionError("assigning to a constant parameter was not rejected")
            if n == "push":
                obj.param._state_push()
            elif n == "pop":
                obj.param._state_pop()
        return None

    def obs(self):
        return {"time": self.unT(self.tf())}

    def check(self, st, ret, got):
        name = st["act"]["name"]
        if getattr(self, "fault", None):
            return self.fault
        if not self.tf.param.objects("existing")["time_type"].constant:
            # (a C14 fact observed here: Time lifts the constant flag of its own time_type to switch the type)
            return ("time_type_unlocked", "after Time.__call__(val, time_type=...) the constant parameter time_type of the Time object is left assignable")
        if got["time"] != st["time"]:
            return ("time", "after %s the time is %r, spec expects %r" % (name, got["time"], st["time"]))
        if len(self.tf._pushed_state) != st["depth"] and hasattr(self.tf, "_pushed_state"):
            return ("context", "after %s %d time contexts are open, spec expects %d" % (name, len(self.tf._pushed_state), st["depth"]))
        term = st["ret"]
        if name == "readfail" and ret is not None:
            return ("result", "the generator raised during a read but the read returned normally")
        if name == "rejectupd" and ret is not None:
            return ("result", "param.update with an invalid value for the generator-holding parameter was not refused")
        if name in ("read", "inspect", "force"):
            if term[0] == "none":
                if ret is not None:
                    return ("value", "%s before any read returned %r, spec expects None" % (name, ret))
                return None
            if term[0] in ("K", "N"):
                if ret != float(term[1]):
                    return ("same_time_same_value", "%s of the counter-backed parameter returned %r, spec expects the value of production number %d "
                            "(a read at an unchanged time must return the cached value, a read at a new time produces exactly once)" % (name, ret, term[1]))
                return None
            key = (term[0], self.enc + "/" + self.family, term[1])
            if isinstance(ret, bool) or not isinstance(ret, (int, float)):
                return ("value", "%s returned %r (not a number) for term %s" % (name, ret, key))
            if key in TABLE and TABLE[key] != ret:
                return ("not_a_function_of_time", "%s of generator %s at time %s returned %r, but %r was returned for the same generator and time before"
                        % (name, key[0], key[2], ret, TABLE[key]))
            TABLE.setdefault(key, ret)
            # different times must not alias (inspect after a time change returns the *old* term's value)
            for (g, e, t), v in TABLE.items():
                if g == key[0] and e == key[1] and t != key[2] and v == ret:
                    return ("stale_value", "%s at time %s returned the value of time %s" % (name, key[2], t))
        return None

    def close(self):
        while self.cms:
            self.tf.__exit__(None, None, None)
            self.cms.pop()


def replay(beh, opts):
    if "enc" not in opts:
        res = None
        fam = FAMILIES[zlib.crc32(json.dumps(beh, sort_keys=True).encode()) % len(FAMILIES)]
        for enc in ("small", "fresh", "fraction", "float"):
            res = replay(beh, dict(opts, enc=enc, family=fam))
            if res["status"] != "ok":
                res["msg"] = "[times as %s, %s generators] %s" % (enc, fam, res.get("msg"))
                break
        return res
    if opts.get("nontrivial") == "rejected":
        return _simple.run(System, beh, opts, nontrivial=lambda b: any(s["act"]["name"] == "reject" for s in b["steps"]))
    return _simple.run(System, beh, opts, nontrivial=lambda b: sum(1 for s in b["steps"] if s["act"]["name"] in ("read", "force")) >= 1)
