"""Replay behaviours of spec/RxAsync.tla: a reactive expression piped through a coroutine."""
import asyncio
import warnings

from harness.core import import_param
from harness.steploop import StepLoop

param = import_param()
warnings.simplefilter("ignore")


def replay(beh, opts):
    steps = beh["steps"]
    loop = StepLoop()
    asyncio._set_running_loop(loop)
    res = {"status": "ok", "nontrivial": any(s["a"] == "tick" and s["what"] in ("store", "drop") for s in steps), "kf": []}
    try:
        futs = {}
        root = param.rx(0)

        async def f(v):
            fu = loop.create_future()
            futs[v] = fu
            return await fu
        expr = root.rx.pipe(f)
        seen = []
        # (a root update re-announces the value currently stored -- not a new result: consecutive
        #  repetitions are folded; Undefined announcements are ignored)
        expr.rx.watch(lambda v: seen.append(v) if isinstance(v, int) and seen[-1:] != [v] else None)
        n = len(steps[0]["obs"]["futs"])
        for k, st in enumerate(steps):
            a = st["a"]
            bad = None
            if a == "update":
                root.rx.value = st["j"]
            elif a == "resolve":
                if st["j"] not in futs:
                    bad = ("loop", "spec resolves the awaitable of update %d but the coroutine has not created it yet" % st["j"])
                else:
                    futs[st["j"]].set_result(100 + st["j"])
            elif a == "tick":
                if not loop.tick():
                    bad = ("loop", "spec runs a ready callback but the real loop has nothing ready")
            if bad is None:
                o = st["obs"]
                want_seen = list(o["seen"])
                if seen != want_seen:
                    kind = "late_result" if len(seen) > len(want_seen) else "missing_result"
                    bad = (kind, "after %s: the watcher has seen %s, spec expects %s" % ({x: y for x, y in st.items() if x not in ("obs", "kf")}, seen, want_seen))
                for j in range(1, n + 1):
                    want = o["futs"][j - 1]
                    got = "none" if j not in futs and want in ("none", "new") else want if j not in futs else (
                        "wait" if not futs[j].done() else ("woken" if want == "woken" else "done"))
                    if want in ("wait",) and (j not in futs or futs[j].done()):
                        bad = bad or ("future_state", "after %s: awaitable %d is not pending, spec expects it pending" % (a, j))
            if bad is None and k == len(steps) - 1 and loop.pending_task_handles() == 0 and steps[-1]["obs"]["value"] > 0:
                try:
                    v = expr.rx.value
                except Exception as e:  # noqa
                    v = repr(e)
                if loop.pending_task_handles() == 0 and v != steps[-1]["obs"]["value"]:
                    bad = ("value", "at the end .rx.value is %r, spec expects %r" % (v, steps[-1]["obs"]["value"]))
            if bad:
                return {"status": "diverge", "step": k, "kind": bad[0], "msg": bad[1], "expected": st.get("obs"), "observed": seen,
                        "tags": sorted({x for s in steps[:k + 1] for x in s.get("kf", [])}), "nontrivial": True, "kf": []}
    finally:
        asyncio._set_running_loop(None)
    res["sample"] = beh
    # the specification models the known deviation: behaviours in which it occurs are counted
    res["kf"] = sorted({x for s in steps for x in s.get("kf", [])})
    return res
