"""Replay states of spec/Repr.tla: build the object, take pprint() / script_repr() text, parse it
with ast, compare the call shape with the specification's prediction, then evaluate it."""
import ast
import math

from harness.core import import_param

param = import_param()


class Inner(param.Parameterized):
    v = param.Number(default=1)
    w = param.String(default="w")


def _params():
    return dict(a=param.Number(default=0, allow_None=True), b=param.Number(default=4, allow_None=True), s=param.String(default=""),
                l=param.List(default=[]), t=param.Parameter(default=None), sub=param.Parameter(default=None),
                d=param.Dict(default={"k": 1, "m": 2}))


class OuterKw(param.Parameterized):
    locals().update(_params())


class OuterPos2(param.Parameterized):
    locals().update(_params())

    def __init__(self, a, b, **params):
        super().__init__(a=a, b=b, **params)


class OuterPosKw(param.Parameterized):
    locals().update(_params())

    def __init__(self, a, b=7, **params):
        super().__init__(a=a, b=b, **params)


class OuterClosed(param.Parameterized):
    locals().update(_params())

    def __init__(self, a, b=7):
        super().__init__(a=a, b=b)


class OuterKwOnly(param.Parameterized):
    locals().update(_params())

    def __init__(self, a, *, b=7):
        super().__init__(a=a, b=b)


class OuterKwReq(param.Parameterized):
    locals().update(_params())

    def __init__(self, a, *, b):
        super().__init__(a=a, b=b)


CLS = {"kw": OuterKw, "pos2": OuterPos2, "poskw": OuterPosKw, "closed": OuterClosed, "kwonly": OuterKwOnly, "kwreq": OuterKwReq}
NAN = float("nan")


def value(p, tok):
    if p in ("a", "b"):
        return {"0": 0, "3": 3, "neg": -2.5, "inf": float("inf"), "ninf": float("-inf"), "big": 1e300, "4": 4, "7": 7, "9": 9, "none": None}[tok]
    if p == "s":
        return {"empty": "", "plain": "x", "escapes": "it's \"q\"\n\\t\\", "unicode": "café \U0001F600"}[tok]
    if p == "l":
        return {"empty": [], "nested": [1, [2, "a"]], "onetuple": [(3,)], "withinf": [float("inf"), -1], "withninf": [float("-inf"), (float("-inf"),)]}[tok]
    if p == "t":
        return {"none": None, "pair": (1, 2), "one": (5,), "eset": set(), "set1": {3}}[tok]
    if p == "d":
        return {"default": {"k": 1, "m": 2}, "empty": {}, "subset": {"k": 1}, "changed": {"k": 1, "m": 3}, "superset": {"k": 1, "m": 2, "z": 0}}[tok]
    if p == "sub":
        return {"none": None, "inner": Inner(), "innerchanged": Inner(v=-3, w="z'")}[tok]
    raise ValueError(p)


def same(x, y):
    if isinstance(x, param.Parameterized) or isinstance(y, param.Parameterized):
        return type(x) is type(y) and all(same(getattr(x, n), getattr(y, n)) for n in x.param if n != "name")
    if isinstance(x, float) and isinstance(y, float) and math.isnan(x) and math.isnan(y):
        return True
    if isinstance(x, (list, tuple)) and type(x) is type(y):
        return len(x) == len(y) and all(same(i, j) for i, j in zip(x, y))
    if isinstance(x, dict) and isinstance(y, dict):
        return list(x) == list(y) and all(same(x[k], y[k]) for k in x)
    return type(x) is type(y) and x == y or (isinstance(x, (int, float)) and isinstance(y, (int, float)) and not isinstance(x, bool) and x == y)


def replay(st, opts):
    import sys
    mod = sys.modules[__name__]
    base = CLS[st["shape"]]
    try:
        return _replay(st, opts, mod)
    finally:
        setattr(mod, base.__name__, base)


def _replay(st, opts, mod):
    shape, val, nm = st["shape"], st["val"], st["name"]
    # a fresh three-level hierarchy per case: the class-level default of `a` may be reassigned on the
    # intermediate class after the leaf class was already in use
    base = CLS[shape]
    mid = type("Mid" + base.__name__, (base,), {})
    cls = type(base.__name__, (mid,), {})
    setattr(mod, base.__name__, cls)       # script_repr names the class through its module
    defaults = {"a": st["defa"], "b": "4", "s": "empty", "l": "empty", "t": "none", "sub": "none", "d": "default"}
    if st["defa"] != "0":
        first = cls(**({} if shape == "kw" else {"a": 1, "b": 2}))
        first.param.pprint()
        mid.a = value("a", st["defa"])
    kw = {p: value(p, val[p]) for p in val}
    if nm == "explicit":
        kw["name"] = "my name"
    elif nm == "autolike":
        kw["name"] = cls.__name__ + "7b"        # starts like an auto-generated name but is not one
    if shape == "kw":
        obj = cls(**{k: v for k, v in kw.items() if k == "name" or val.get(k) != defaults[k]})
    elif shape == "pos2":
        obj = cls(kw.pop("a"), kw.pop("b"), **kw)
    elif shape == "poskw":
        obj = cls(kw.pop("a"), b=kw.pop("b"), **kw)
    else:
        obj = cls(kw["a"], b=kw["b"])
    res = {"status": "ok", "nontrivial": bool(st["keywords"]) or bool(st["positional"]), "kf": []}
    tolerate = set(opts.get("tolerate", ()))

    def fail(kind, msg, exp=None, got=None):
        return {"status": "diverge", "step": 0, "kind": kind, "msg": "%s: %s" % (shape, msg), "expected": exp, "observed": got,
                "tags": [], "nontrivial": True, "kf": []}

    for how in ("pprint", "script_repr"):
        if how == "pprint":
            text = obj.param.pprint()
            code = text
            ns = {c.__name__: c for c in [cls, Inner]}
            ns["param"] = param
        else:
            text = param.script_repr(obj)
            lines = text.split("\n")
            imports = [ln for ln in lines if ln.startswith("import ") or ln.startswith("from ")]
            code = "\n".join(ln for ln in lines if ln not in imports).strip()
            ns = {}
            try:
                exec("\n".join(imports), ns)
            except Exception as e:  # noqa
                return fail("imports", "%s: the emitted imports cannot be executed: %r" % (how, e))
        try:
            tree = ast.parse(code, mode="eval")
        except SyntaxError as e:
            return fail("syntax", "%s text is not a Python expression: %r\n%s" % (how, e, text))
        call = tree.body
        if not isinstance(call, ast.Call):
            return fail("syntax", "%s text is not a call: %s" % (how, text))
        gotkw = sorted(k.arg for k in call.keywords)
        if len(call.args) != len(st["positional"]):
            return fail("positional", "%s shows %d positional arguments, spec expects %s: %s" % (how, len(call.args), st["positional"], text))
        if gotkw != sorted(st["keywords"]):
            return fail("keywords", "%s shows keywords %s, spec expects %s (values %s, name %s): %s" % (how, gotkw, sorted(st["keywords"]), val, nm, text),
                        sorted(st["keywords"]), gotkw)
        try:
            new = eval(compile(tree, "<repr>", "eval"), ns)
        except Exception as e:  # noqa
            return fail("eval", "evaluating the %s text raised %s: %s\n%s" % (how, type(e).__name__, e, text))
        if type(new) is not type(obj):
            return fail("class", "%s rebuilt a %s" % (how, type(new).__name__))
        for p in val:
            if not same(getattr(obj, p), getattr(new, p)):
                return fail("value", "%s: rebuilt object has %s=%r, original %r\n%s" % (how, p, getattr(new, p), getattr(obj, p), text))
        if nm != "auto" and new.name != obj.name:
            return fail("value", "%s: rebuilt object has name %r, original %r\n%s" % (how, new.name, obj.name, text))
    res["sample"] = dict(st, text=obj.param.pprint())
    return res
