"""Replay behaviours of spec/ClassModel.tla on real Parameterized classes and instances."""
import inspect

from harness.core import import_param
from harness.drivers import _simple

param = import_param()
from param.parameterized import edit_constant  # noqa: E402

ORDER = ["A", "B", "C"]


def make_param(kind, nested=False):
    if nested and kind in ("mut_inst", "mut_shared"):
        # the mutable value is a dictionary holding a list: mutation happens one level down
        return param.Dict(default={"k": []}, instantiate=(kind == "mut_inst"), **({"allow_refs": True} if kind == "mut_inst" else {}))
    if kind == "plain":
        return param.Integer(0, bounds=(0, 5), allow_None=True)
    if kind == "mut_inst":
        return param.List(default=[], instantiate=True, allow_refs=True)
    if kind == "sel0":
        return param.Selector(objects=[], check_on_set=False)
    if kind == "sel1":
        return param.Selector(objects=[1], check_on_set=False)
    if kind == "mut_shared":
        return param.List(default=[], instantiate=False)
    if kind == "const":
        return param.Parameter(default=[], constant=True)
    if kind == "constnone":
        return param.Parameter(default=None, constant=True)
    if kind == "readonly":
        return param.Integer(0, readonly=True)
    if kind == "noperinst":
        return param.Integer(0, bounds=(0, 5), per_instance=False, allow_None=True)
    raise ValueError(kind)


class System:
    def __init__(self, beh, opts):
        self.kinds = opts["kinds"]
        import json
        import zlib
        self.nested = zlib.crc32(json.dumps(beh, sort_keys=True).encode()) % 2 == 1
        self.classes = {}
        bases = opts.get("bases") or {c: ([opts["classes"][i - 1]] if i else []) for i, c in enumerate(opts["classes"])}
        for c in sorted(bases):        # names are in definition order
            ns = {n: make_param(k, self.nested) for n, k in self.kinds.items()} if not bases[c] else {}
            if not bases[c]:
                ns["__len__"] = lambda self: 0       # container-like and currently empty: instances are falsy
            self.classes[c] = type(c, tuple(self.classes[b] for b in bases[c]) or (param.Parameterized,), ns)
        self.cnames = sorted(bases)
        self.cbfail = []
        self.watch = bool(opts.get("watch"))
        if self.watch:
            # C13 "watching sees the same values as getattr": class-level watchers look at the class from
            # inside the callback (plain attribute access only: the namespace caches are left alone)
            for c in self.cnames:
                cls = self.classes[c]
                for n in self.kinds:
                    if self.kinds[n] in ("plain", "noperinst"):
                        cls.param.watch(self.on_class_event, [n])

        class Src(param.Parameterized):
            v = param.Integer(0)
        self.src = Src()
        self.insts = []
        self.ctx = {}
        self.kf = set()
        self.tolerate = set(opts.get("tolerate", ()))

    def on_class_event(self, event):
        owner = event.cls if event.obj is None else event.obj
        seen = getattr(owner, event.name)
        if seen != event.new:
            self.cbfail.append("watcher of %s.%s received new=%r while getattr(%s, %r) is %r" % (
                event.cls.__name__, event.name, event.new, "instance" if event.obj is not None else event.cls.__name__, event.name, seen))
        if event.obj is None:
            static = inspect.getattr_static(event.cls, event.name)
            if static.default != event.new:
                self.cbfail.append("watcher of %s.%s received new=%r while the governing Parameter's default is %r" % (
                    event.cls.__name__, event.name, event.new, static.default))

    def val(self, v, kind=None):
        if v["t"] == "skipref":
            def skip(v):
                raise param.Skip
            return param.bind(skip, self.src.param.v)
        if v["t"] == "none":
            return None
        if v["t"] == "gen":
            return lambda: 1
        if v["t"] == "int":
            return v["v"]
        if v["t"] == "newcell":
            return {"k": []} if self.nested and kind in ("mut_inst", "mut_shared") else []
        raise ValueError(v)

    def init(self, st):
        return "ok"

    def do(self, a, st):
        n = a["name"]
        self.ilog = []
        try:
            if n == "readns":
                c = self.classes[a["c"]]
                list(c.param)
                c.param.values()
                c.param.objects(instance=False)
                for i in self.insts:
                    if type(i) is c:
                        i.param.values()
                        i.param.objects(instance="existing")
            elif n == "instparam":
                self.insts[a["i"] - 1].param[a["n"]]
            elif n == "classset":
                cls = self.classes[a["c"]]
                setattr(cls, a["n"], float(getattr(cls, a["n"])) if a["v"]["t"] == "badeq" else
                        getattr(cls, a["n"]) if a["v"]["t"] == "same" else self.val(a["v"], self.kinds.get(a["n"])))
            elif n == "addparam":
                newp = param.Integer(self.val(a["v"]), bounds=(0, 5), allow_None=True)
                if a.get("route", "add") == "add":
                    self.classes[a["c"]].param.add_parameter(a["n"], newp)
                else:
                    setattr(self.classes[a["c"]], a["n"], newp)
            elif n == "new":
                kw = {k: self.val(v, self.kinds.get(k)) for k, v in (a["kw"].items() if isinstance(a["kw"], dict) else [])}
                self.insts.append(self.classes[a["c"]](**kw))
                if self.watch:
                    # C03 across the class / instance boundary: a changes-only watcher of the instance runs iff the value the
                    # instance shows changes, and is told the value shown before
                    k = len(self.insts) - 1
                    plain = [nm for nm in self.insts[k].param if nm != "name" and self.kinds.get(nm, "plain") in ("plain", "noperinst")]
                    self.iwatched = getattr(self, "iwatched", {})
                    self.iwatched[k] = set(plain)
                    if plain:
                        self.insts[k].param.watch(lambda *evs, k=k: self.ilog.extend((k, e.name, e.old, e.new) for e in evs), plain, onlychanged=True)
            elif n == "instset":
                i = self.insts[a["i"] - 1]
                v = getattr(i, a["n"]) if a["v"]["t"] == "same" else float(getattr(i, a["n"])) if a["v"]["t"] == "badeq" else self.val(a["v"], self.kinds.get(a["n"]))
                if a["route"] == "attr":
                    setattr(i, a["n"], v)
                else:
                    i.param.update(**{a["n"]: v})
            elif n == "instmeta":
                self.insts[a["i"] - 1].param[a["n"]].precedence = a["b"]
            elif n == "instupdctx":
                with self.insts[a["i"] - 1].param.update(**{a["n"]: self.val(a["v"])}):
                    pass
            elif n == "insttrigger":
                self.insts[a["i"] - 1].param.trigger(a["n"])
            elif n == "instconst":
                self.insts[a["i"] - 1].param[a["n"]].constant = a["b"]
            elif n == "instobjs":
                self.insts[a["i"] - 1].param[a["n"]].objects.append(a["tok"])
            elif n == "classobjs":
                self.classes[a["c"]].param[a["n"]].objects.append(a["tok"])
            elif n == "classmeta":
                self.classes[a["c"]].param[a["n"]].precedence = a["b"]
            elif n == "mutateinst":
                x = getattr(self.insts[a["i"] - 1], a["n"])
                (x["k"] if isinstance(x, dict) else x).append(1)
            elif n == "mutateclass":
                x = getattr(self.classes[a["c"]], a["n"])
                (x["k"] if isinstance(x, dict) else x).append(1)
            elif n == "sharedblocks":
                with param.shared_parameters():
                    with param.shared_parameters():
                        self.classes[self.cnames[0]]()
                    self.classes[self.cnames[-1]]()
            elif n == "enteredit":
                cm = edit_constant(self.insts[a["i"] - 1])
                cm.__enter__()
                self.ctx.setdefault(a["i"], []).append(cm)
            elif n == "exitedit":
                cm = self.ctx[a["i"]].pop()
                if a["raising"]:
                    cm.__exit__(RuntimeError, RuntimeError("body"), None)
                else:
                    cm.__exit__(None, None, None)
            else:
                raise ValueError(n)
        except TypeError:
            return "TypeError"
        except ValueError:
            return "ValueError"
        return "ok"

    def close(self):
        for cms in self.ctx.values():
            for cm in reversed(cms):
                try:
                    cm.__exit__(None, None, None)
                except Exception:
                    pass

    # ---- observation
    def obs(self):
        return None     # computed inside check (needs the expected key sets)

    def check(self, st, ret, _):
        name = st["act"]["name"]
        if ret != st["res"]:
            return ("result", "%s: result %s, spec expects %s" % (name, ret, st["res"]))
        if self.cbfail:
            return ("watch_vs_getattr", "during %s: %s" % (name, self.cbfail[0]))
        exp = st["obs"]
        editing = exp["editopen"]
        ids = {}
        if self.watch and name == "instset" and st["res"] == "ok" and st["act"].get("chg") in ("yes", "no") and st["act"]["n"] in getattr(self, "iwatched", {}).get(st["act"]["i"] - 1, ()):
            a = st["act"]
            mine = [e for e in getattr(self, "ilog", []) if e[0] == a["i"] - 1 and e[1] == a["n"]]
            if a["chg"] == "no" and mine:
                return ("unchanged_notified", "instset %s=%r on instance %d does not change the value it shows (%r), yet its changes-only watcher ran with old=%r new=%r"
                        % (a["n"], a["v"], a["i"], a["old"], mine[0][2], mine[0][3]))
            if a["chg"] == "yes" and (len(mine) != 1 or mine[0][2] != a["old"]["v"]):
                return ("change_notification", "instset %s=%r on instance %d changes the value it shows from %r: its changes-only watcher got %r (spec: one event, old = the value shown before)"
                        % (a["n"], a["v"], a["i"], a["old"], [(e[2], e[3]) for e in mine]))

        def mask(p):
            objs = getattr(p, "_objects", None)
            if objs is None:
                return 0
            return sum({1: 1, 2: 2, 3: 4}.get(o, 64) for o in set(objs)) + (128 if len(set(objs)) != len(objs) else 0)

        def cell(x):
            if isinstance(x, dict) and list(x) == ["k"] and isinstance(x["k"], list):
                # (nested representation: identity of the dictionary and of its inner list must go together)
                return {"t": "cell", "id": ids.setdefault((id(x), id(x["k"])), len(ids) + 1), "c": len(x["k"])}
            if isinstance(x, list):
                return {"t": "cell", "id": ids.setdefault(id(x), len(ids) + 1), "c": len(x)}
            if x is None:
                return {"t": "none"}
            if isinstance(x, bool) or not isinstance(x, int):
                return {"t": "?", "v": repr(x)}
            return {"t": "int", "v": x}

        eids = {}

        def ecell(v):
            if v["t"] == "cell":
                return {"t": "cell", "id": eids.setdefault(v["id"], len(eids) + 1), "c": v["c"]}
            return v

        # Reading `.param` populates caches, so it is done only where the behaviour itself reads the
        # namespace (readns) or necessarily goes through it; everything else is observed through
        # plain attribute access and inspect.getattr_static, which leave the caches alone.
        act = st["act"]
        ns_classes = set()
        ns_insts = set()
        if name == "init":
            pass
        elif name == "readns":
            ns_classes.add(act["c"])
            ns_insts.update(k for k, i in enumerate(self.insts) if type(i).__name__ == act["c"])
        elif name in ("instparam", "instmeta", "instset", "mutateinst", "enteredit", "exitedit", "instobjs", "instconst", "insttrigger", "instupdctx"):
            ns_insts.add(act["i"] - 1)
        elif name in ("addparam", "classobjs", "classmeta"):
            ns_classes.add(act["c"])
        for c in self.cnames:
            cls = self.classes[c]
            want = exp["classes"][c]
            want = want if isinstance(want, dict) else {}
            for n in sorted(want):
                e = want[n]
                try:
                    static = inspect.getattr_static(cls, n)
                except AttributeError:
                    return ("missing", "after %s: %s.%s does not exist, spec says it is declared" % (name, c, n))
                holder = next(k.__name__ for k in cls.__mro__ if n in k.__dict__)
                v = getattr(cls, n)
                if cell(v) != ecell(e["val"]):
                    return ("class_value", "after %s: %s.%s is %r (%s), spec expects %s" % (name, c, n, v, cell(v), ecell(e["val"])))
                # (which class's __dict__ holds the governing Parameter is an implementation detail: not compared)
                if (static.precedence or 0) != e["bounds"]:
                    return ("class_meta", "after %s: %s.%s Parameter attribute is %r, spec expects %r" % (name, c, n, static.precedence, e["bounds"]))
                if mask(static) != e["objs"]:
                    return ("class_objs", "after %s: the objects of %s.%s are %r, spec expects the token set with mask %d" % (name, c, n, getattr(static, "_objects", None), e["objs"]))
                if not editing and bool(static.constant) != e["constant"]:
                    return ("class_constant", "after %s: %s.%s constant flag is %r, spec expects %r" % (name, c, n, static.constant, e["constant"]))
                if c not in ns_classes:
                    continue
                # C13: the namespace agrees with attribute access
                if n not in cls.param:
                    return ("namespace", "after %s: %r is an attribute of %s but not listed in %s.param" % (name, n, c, c))
                if cls.param[n].name != n:
                    return ("namespace", "after %s: %s.param[%r] calls itself %r" % (name, c, n, cls.param[n].name))
                if cls.param[n] is not static:
                    return ("namespace", "after %s: %s.param[%r] is not the Parameter that governs %s.%s (it belongs to %s, default %r; attribute value %r)"
                            % (name, c, n, c, n, getattr(cls.param[n].owner, "__name__", None), cls.param[n].default, v))
                if cls.param[n].default is not v and cls.param[n].default != v:
                    return ("namespace", "after %s: %s.param[%r].default is %r but %s.%s is %r" % (name, c, n, cls.param[n].default, c, n, v))
                if cls.param.values()[n] is not v and cls.param.values()[n] != v:
                    return ("namespace", "after %s: %s.param.values()[%r] is %r but %s.%s is %r" % (name, c, n, cls.param.values()[n], c, n, v))
            extra = [n for n in cls.param if n != "name" and n not in want] if c in ns_classes else []
            if extra:
                return ("namespace", "after %s: %s.param lists %r which the spec does not declare" % (name, c, extra))
        for k, inst in enumerate(self.insts):
            want = exp["insts"][k]
            want = want if isinstance(want, dict) else {}
            existing = inst.param.objects(instance="existing") if k in ns_insts else None
            for n in sorted(want):
                e = want[n]
                v = getattr(inst, n)
                if cell(v) != ecell(e["val"]):
                    return ("inst_value", "after %s: instance %d (%s).%s is %r, spec expects %s" % (
                        name, k + 1, type(inst).__name__, n, v, ecell(e["val"])))
                gov0 = inst._param__private.params.get(n) or inspect.getattr_static(type(inst), n)
                if mask(gov0) != e["objs"]:
                    return ("inst_objs", "after %s: the objects seen by instance %d for %s are %r, spec expects the token set with mask %d" % (name, k + 1, n, getattr(gov0, "_objects", None), e["objs"]))
                if existing is None:
                    continue
                pv = inst.param.values()[n]
                if pv is not v and pv != v and not callable(pv):     # (dynamic values: the generator itself is listed)
                    return ("namespace", "after %s: instance %d .param.values()[%r] is %r but attribute is %r" % (name, k + 1, n, pv, v))
                static = inspect.getattr_static(type(inst), n)
                po = existing.get(n)
                own = po is not None and po is not static
                # (whether a per-instance copy exists is an implementation detail: not compared)
                gov = po if own else static
                if (gov.precedence or 0) != e["bounds"]:
                    return ("inst_meta", "after %s: instance %d Parameter attribute of %s is %r, spec expects %r" % (name, k + 1, n, gov.precedence, e["bounds"]))
                if not editing and bool(gov.constant) != e["constant"]:
                    return ("inst_constant", "after %s: instance %d constant flag of %s is %r, spec expects %r" % (name, k + 1, n, gov.constant, e["constant"]))
        return None


def replay(beh, opts):
    if opts.get("nontrivial") == "rejected":
        return _simple.run(System, beh, opts, nontrivial=lambda b: any(s["res"] in ("ValueError", "TypeError") for s in b["steps"]))
    return _simple.run(System, beh, opts)
