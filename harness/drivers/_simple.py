"""Generic replay loop for sequential modules whose behaviours are
   {"steps": [ {act: {name, ...args}, ret, obs, kf, ...}, ... ], <constants>}.

A driver module supplies `System(beh, opts)` with
   do(act)   -> observed return token (exceptions are the driver's business)
   obs()     -> observed projection, in the specification's vocabulary
   check(step, ret, obs) -> None or (kind, message)     [optional refinement]
The loop compares after every step and reports the first divergence."""
from harness.core import Diverge


def run(System, beh, opts, nontrivial=None):
    steps = beh["steps"]
    res = {"status": "ok", "nontrivial": False, "kf": []}
    sysm = None
    i = 0
    try:
        sysm = System(beh, opts)
        for i, st in enumerate(steps):
            act = st["act"]
            if act["name"] == "init":
                ret = sysm.init(st) if hasattr(sysm, "init") else 0
            else:
                try:
                    ret = sysm.do(act, st)
                except Exception as e:  # noqa: the operation itself failed on the real code
                    if getattr(sysm, "exceptions_are_results", False):
                        ret = ("exception", type(e).__name__)
                    else:
                        raise Diverge(i, "exception", "%s %s raised %s: %s" % (
                            act["name"], {k: v for k, v in act.items() if k != "name"}, type(e).__name__, str(e)[:200]), st.get("ret"), repr(e))
            got = sysm.obs()
            try:
                bad = sysm.check(st, ret, got) if hasattr(sysm, "check") else None
            except Exception as e:  # noqa: observing the real object failed -- that is a finding about the code
                import traceback
                bad = ("observation_failed", "observing the state after %s raised %s: %s [%s]" % (
                    act["name"], type(e).__name__, str(e)[:200], traceback.format_exc().strip().splitlines()[-3].strip()[:120]))
            if bad is None and not hasattr(sysm, "check"):
                if "ret" in st and ret != st["ret"]:
                    bad = ("ret", "%s returned %r, spec expects %r" % (act["name"], ret, st["ret"]))
                elif got != st["obs"]:
                    bad = ("obs", "after %s: observed %r, spec expects %r" % (act["name"], got, st["obs"]))
            if bad is not None:
                raise Diverge(i, bad[0], bad[1], st.get("obs"), got)
    except Diverge as d:
        res = {"status": "diverge", "step": d.step, "kind": d.kind, "msg": d.msg, "expected": d.expected,
               "observed": d.observed, "tags": sorted({t for s in steps[:d.step + 1] for t in s.get("kf", [])})}
    finally:
        if sysm is not None and hasattr(sysm, "close"):
            try:
                sysm.close()
            except Exception:
                pass
    if sysm is not None:
        res["kf"] = sorted(getattr(sysm, "kf", ()))
    res["nontrivial"] = nontrivial(beh) if nontrivial else len(steps) > 1
    if res["status"] == "ok":
        res["sample"] = {k: v for k, v in beh.items() if k != "steps"}
        res["sample"]["steps"] = [{k: v for k, v in s.items() if k != "kf"} for s in steps]
    return res
