"""Operator table of spec/RxOps.tla: every operator form on real rx objects vs plain Python."""
import math
import operator
import warnings

from harness.core import import_param

param = import_param()
warnings.simplefilter("ignore")


class Mat:
    def __init__(self, tag="m"):
        self.tag = tag

    def __matmul__(self, other):
        if not isinstance(other, (Mat, int, float)):
            return NotImplemented          # so that Python dispatches to the other operand's __rmatmul__
        return ("matmul", self.tag, getattr(other, "tag", other))

    def __rmatmul__(self, other):
        if not isinstance(other, (Mat, int, float)):
            return NotImplemented
        return ("rmatmul", getattr(other, "tag", other), self.tag)

    def __eq__(self, other):
        return isinstance(other, Mat) and other.tag == self.tag

    def __hash__(self):
        return hash(self.tag)


VAL = {"i0": 0, "i3": 3, "ineg": -2, "f25": 2.5, "f1234": 12.34, "true": True}
BIN = {"add": operator.add, "sub": operator.sub, "mul": operator.mul, "truediv": operator.truediv, "floordiv": operator.floordiv,
       "mod": operator.mod, "divmod": divmod, "pow": operator.pow, "lshift": operator.lshift, "rshift": operator.rshift,
       "and": operator.and_, "or": operator.or_, "xor": operator.xor, "matmul": operator.matmul,
       "lt": operator.lt, "le": operator.le, "eq": operator.eq, "ne": operator.ne, "gt": operator.gt, "ge": operator.ge}
UN = {"neg": operator.neg, "pos": operator.pos, "abs": abs, "invert": operator.invert, "round": round, "trunc": math.trunc,
      "floor": math.floor, "ceil": math.ceil,
      "round0": lambda v: round(v, 0), "round1": lambda v: round(v, 1), "roundneg": lambda v: round(v, -1)}
BIN["pow3"] = lambda a, b: pow(a, b, 5)


def val(tok):
    return Mat() if tok == "mat" else VAL[tok]


def outcome(fn, *args):
    try:
        return ("value", fn(*args))
    except Exception as e:  # noqa
        return ("error", type(e).__name__)


def rxoutcome(build):
    try:
        e = build()
        return ("value", e.rx.value), e
    except Exception as ex:  # noqa
        return ("error", type(ex).__name__), None


def same(a, b):
    if a[0] != b[0]:
        return False
    if a[0] == "error":
        return a[1] == b[1]
    return type(a[1]) is type(b[1]) and a[1] == b[1]


def replay(st, opts):
    op, form = st["op"], st["form"]
    x, y, x2 = val(st["x"]), val(st["y"]), val(st["x2"])
    res = {"status": "ok", "nontrivial": True, "kf": []}

    def fail(msg, exp, got):
        return {"status": "diverge", "step": 0, "kind": "operator", "msg": "%s %s (%s, %s): %s" % (op, form, st["x"], st["y"], msg),
                "expected": repr(exp), "observed": repr(got), "tags": [], "nontrivial": True, "kf": []}

    rxx = param.rx(x)
    if form == "unary":
        fn = UN[op]
        plain = lambda v: outcome(fn, v)          # noqa: E731
        build = lambda: fn(rxx)                   # noqa: E731
    else:
        fn = BIN[op]
        if form == "rx_const":
            plain = lambda v: outcome(fn, v, y)    # noqa: E731
            build = lambda: fn(rxx, y)             # noqa: E731
        elif form == "const_rx":
            plain = lambda v: outcome(fn, y, v)    # noqa: E731
            build = lambda: fn(y, rxx)             # noqa: E731
        else:
            rxy = param.rx(y)
            plain = lambda v: outcome(fn, v, y)    # noqa: E731
            build = lambda: fn(rxx, rxy)           # noqa: E731
    want = plain(x)
    got, expr = rxoutcome(build)
    if not same(got, want):
        if not (got[0] == "error" and want[0] == "error"):
            return fail("on %r the expression gives %r, plain Python gives %r" % (x, got, want), want, got)
    if expr is None:
        # Python raises for these operands at build time (building evaluates): build over valid operands, then update
        rxx = param.rx(x2)
        if plain(x2)[0] == "error":
            return res
        got2, expr = rxoutcome(build)
        if expr is None:
            return fail("on %r the expression cannot be built: %r, plain Python gives %r" % (x2, got2, plain(x2)), plain(x2), got2)
        rxx.rx.value = x
        try:
            g = ("value", expr.rx.value)
        except Exception as e:  # noqa
            g = ("error", type(e).__name__)
        if not same(g, want):
            return fail("after updating the operand to %r the expression gives %r, plain Python gives %r" % (x, g, want), want, g)
        return res
    rxx.rx.value = x2
    want2 = plain(x2)
    try:
        g2 = ("value", expr.rx.value)
    except Exception as e:  # noqa
        g2 = ("error", type(e).__name__)
    if not same(g2, want2):
        return fail("after updating the operand to %r the expression gives %r, plain Python gives %r" % (x2, g2, want2), want2, g2)
    if want2[0] == "error":
        rxx.rx.value = x
        try:
            g3 = ("value", expr.rx.value)
        except Exception as e:  # noqa
            g3 = ("error", type(e).__name__)
        if not same(g3, want):
            return fail("the expression does not recover after the operand became valid again: %r, expected %r" % (g3, want), want, g3)
    res["sample"] = st
    return res
