"""Replay behaviours of spec/DependsPath.tla on real objects with sub-object dependencies."""
from harness.core import import_param

param = import_param()

SPECS = {"ax": ["a.x"], "axay": ["a.x", "a.y"], "aparam": ["a.param"], "axcx": ["a.x", "c.x"],
         "abx": ["a.b.x"], "abxaby": ["a.b.x", "a.b.y"], "abxcx": ["a.b.x", "c.x"],
         "axcy": ["a.x", "c.y"], "azabx": ["a.z", "a.b.x"]}


class Leaf(param.Parameterized):
    x = param.Integer(0)
    y = param.Integer(0)


class Mid(param.Parameterized):
    b = param.Parameter(None)
    z = param.Integer(0)


_TOPS = {}


def top_class(deps):
    if deps not in _TOPS:
        def m(self):
            self._log.append(1)
        ns = {"a": param.Parameter(None), "c": param.Parameter(None),
              "m": param.depends(*SPECS[deps], watch=True)(m)}
        _TOPS[deps] = type("Top_" + deps, (param.Parameterized,), ns)
    return _TOPS[deps]


def nwatchers(obj):
    return sum(len(ws) for byname in obj.param.watchers.values() for ws in byname.values())


def asmap(x):
    """ToJson renders a function over 1..n as a list and any other function as an object"""
    if isinstance(x, list):
        return {i + 1: v for i, v in enumerate(x)}
    return {int(k): v for k, v in x.items()}


_SUBS = {}


def inherited(base, beh):
    """the instance's class: the declaring class itself, a subclass or a grandchild of it (the dependent
    method is then inherited through 0, 1 or 2 levels) -- chosen per behaviour, deterministically"""
    import json
    import zlib
    depth = zlib.crc32(json.dumps(beh, sort_keys=True).encode()) % 3
    key = (base, depth)
    if key not in _SUBS:
        cls = base
        for i in range(depth):
            cls = type("%s_s%d" % (base.__name__, i + 1), (cls,), {})
        _SUBS[key] = cls
    return _SUBS[key]


def replay(beh, opts):
    steps = beh["steps"]
    st0 = steps[0]
    deps = st0["deps"]
    tolerate = set(opts.get("tolerate", ()))
    kf = set()
    leaves = {int(k): Leaf(name="leaf", x=v["x"], y=v["y"]) for k, v in asmap(st0["leaf"]).items()}
    mids = {int(k): Mid(name="mid", b=leaves.get(v)) for k, v in asmap(st0["midb"]).items()}
    pool = dict(leaves)
    pool.update(mids)
    top = inherited(top_class(deps), beh)(a=pool.get(st0["ta"]), c=pool.get(st0["tc"]))
    top._log = []

    def offpath_watchers(onpath):
        on = {(k, i) for k, i in onpath}
        bad = []
        for i, o in leaves.items():
            if ("leaf", i) not in on and nwatchers(o):
                bad.append(("leaf", i, nwatchers(o)))
        for i, o in mids.items():
            if ("mid", i) not in on and nwatchers(o):
                bad.append(("mid", i, nwatchers(o)))
        return bad

    res = {"status": "ok", "nontrivial": False, "kf": []}
    seen_tags = set()
    for i, st in enumerate(steps):
        a = st["act"]
        n = a["name"]
        del top._log[:]
        if n == "seta":
            top.a = pool.get(a["v"])
        elif n == "setc":
            top.c = pool.get(a["v"])
        elif n == "setb":
            mids[a["m"]].b = leaves.get(a["v"])
        elif n == "setleaf":
            setattr(leaves[a["l"]], a["f"], a["v"])
        elif n == "setz":
            mids[a["m"]].z = a["v"]
        seen_tags |= set(st.get("kf", []))
        bad = None
        if n != "init":
            got = len(top._log)
            v = st["verdict"]
            if v == "once":
                res["nontrivial"] = True
            if (v == "once" and got != 1) or (v == "never" and got != 0):
                open_here = seen_tags & tolerate
                if open_here:
                    kf.update(open_here)
                    # the finding has corrupted the watcher set-up of this object graph: stop comparing
                    break
                bad = ("invocations", "%s %s: the dependent method ran %d time(s), spec says %s (dependencies %s)"
                       % (n, {k: x for k, x in a.items() if k != "name"}, got, v, SPECS[deps]))
        if bad is None:
            off = offpath_watchers(st["onpath"])
            if off:
                open_here = seen_tags & tolerate
                if open_here:
                    kf.update(open_here)
                    break
                bad = ("leftover_watchers", "after %s: objects off every current path still carry watchers of the parent: %s" % (n, off))
        if bad:
            return {"status": "diverge", "step": i, "kind": bad[0], "msg": bad[1], "expected": st.get("verdict"), "observed": len(top._log),
                    "tags": sorted(seen_tags), "nontrivial": True, "kf": sorted(kf)}
    res["kf"] = sorted(kf)
    res["sample"] = beh
    return res
