"""Shared machinery: import guard, TLC runner, behaviour streaming, parallel
replay, known-findings classification, evidence writing.

Nothing in here knows anything about param's semantics: the oracle is always a
TLA+ module under /verif/spec, checked and unrolled by TLC; drivers under
harness/drivers only map abstract tokens to Python values and execute steps.
"""
import collections
import hashlib
import json
import multiprocessing
import os
import re
import shutil
import subprocess
import sys
import tempfile
import time
import traceback

VERIF = os.path.dirname(os.path.dirname(os.path.abspath(__file__)))
REPO = os.environ.get("VERIF_REPO", "/repo")
SPEC = os.path.join(VERIF, "spec")
JAR = "/opt/veriftools/tla/tla2tools.jar:/opt/veriftools/tla/CommunityModules-deps.jar"
NCPU = min(16, os.cpu_count() or 4)

os.environ.setdefault("PYTHONHASHSEED", "0")


class MachineryError(Exception):
    """Something in the verification machinery failed (exit 2, never a violation)."""


def import_param():
    """Import param from /repo's working tree, never from site-packages."""
    if sys.path[0] != REPO:
        sys.path.insert(0, REPO)
    os.environ["HOLOVIZ_PARAM_VERIF"] = os.environ.get("HOLOVIZ_PARAM_VERIF", "1")
    import param  # noqa
    if not os.path.realpath(param.__file__).startswith(os.path.realpath(REPO) + os.sep):
        raise MachineryError("param imported from %s, not from %s" % (param.__file__, REPO))
    return param


# --------------------------------------------------------------------------
# scratch space
# --------------------------------------------------------------------------
class Scratch:
    def __init__(self, prefix="verif-"):
        self.prefix = prefix

    def __enter__(self):
        self.dir = tempfile.mkdtemp(prefix=self.prefix)
        return self.dir

    def __exit__(self, *a):
        shutil.rmtree(self.dir, ignore_errors=True)


# --------------------------------------------------------------------------
# TLC
# --------------------------------------------------------------------------
_BEH = re.compile(r'^<<"BEHAVIOUR", "(.*)">>$')
_FINAL = re.compile(r"^(\d+) states generated, (\d+) distinct states found, (\d+) states left on queue")
_SIMFINAL = re.compile(r"The number of states generated: (\d+)")
_COV = re.compile(r"^<(\w+) line (\d+), col \d+ to line \d+, col \d+ of module (\w+)>: (\d+):(\d+)")


class TLCResult:
    def __init__(self):
        self.generated = 0
        self.distinct = 0
        self.ok = True
        self.error = None          # first error line
        self.errtext = ""          # error + counterexample
        self.coverage = {}         # action -> (distinct, total)
        self.behaviours = 0
        self.wall = 0.0
        self.timed_out = False
        self.cmd = ""
        self.depth = None


def decode_behaviour(line):
    """PrintT(<<"BEHAVIOUR", ToJson(x)>>) -> python object, or None."""
    m = _BEH.match(line)
    if not m:
        return None
    return json.loads(json.loads('"' + m.group(1) + '"'))


def run_tlc(module, cfg, scratch, *, workers=NCPU, simulate=None, depth=None,
            seed=0, timeout=600, on_line=None, coverage=False, extra_defs=None,
            heap="6g", dfid=None, env=None):
    """Run TLC on spec/<module>.tla with spec/<cfg>; stream BEHAVIOUR lines to
    on_line(raw_line).  Returns TLCResult."""
    work = os.path.join(scratch, "tlc-%s-%d" % (cfg.replace(".cfg", ""), int(time.time() * 1000) % 100000))
    os.makedirs(work)
    for f in os.listdir(SPEC):
        if f.endswith(".tla") or f.endswith(".cfg"):
            shutil.copy(os.path.join(SPEC, f), work)
    if extra_defs:      # {filename: text} written next to the specs (generated cfgs, MC wrappers)
        for fn, text in extra_defs.items():
            with open(os.path.join(work, fn), "w") as fh:
                fh.write(text)
    jtmp = os.path.join(work, "jtmp")
    os.makedirs(jtmp)
    cmd = ["java", "-XX:+UseParallelGC", "-Xmx" + heap, "-Djava.io.tmpdir=" + jtmp,
           "-cp", JAR, "tlc2.TLC", "-metadir", os.path.join(work, "meta"),
           "-noGenerateSpecTE", "-workers", str(workers), "-config", cfg]
    if simulate is not None:
        cmd += ["-simulate", "num=%d" % simulate, "-depth", str(depth or 20), "-seed", str(seed)]
    if dfid is not None:
        cmd += ["-dfid", str(dfid)]
    if coverage:
        cmd += ["-coverage", "1"]
    cmd.append(module)
    res = TLCResult()
    res.cmd = " ".join(cmd[cmd.index("tlc2.TLC"):])
    t0 = time.time()
    penv = dict(os.environ)
    penv.pop("JAVA_TOOL_OPTIONS", None)
    if env:
        penv.update(env)
    proc = subprocess.Popen(cmd, cwd=work, stdout=subprocess.PIPE, stderr=subprocess.STDOUT,
                            text=True, bufsize=1 << 20, env=penv)
    errlines = []
    in_err = False
    try:
        for line in proc.stdout:
            line = line.rstrip("\n")
            if line.startswith('<<"BEHAVIOUR"'):
                res.behaviours += 1
                if on_line:
                    on_line(line)
                continue
            m = _FINAL.match(line)
            if m:
                res.generated, res.distinct = int(m.group(1)), int(m.group(2))
                continue
            m = _SIMFINAL.search(line)
            if m:
                res.generated = int(m.group(1))
                continue
            m = _COV.match(line)
            if m:
                res.coverage[m.group(1)] = (int(m.group(4)), int(m.group(5)))
                continue
            if line.startswith("The depth of the complete state graph search is"):
                res.depth = int(re.findall(r"\d+", line)[0])
            if line.startswith("Error:") or "Exception" in line and "at tlc2" not in line and not in_err:
                if res.ok:
                    res.error = line
                res.ok = False
                in_err = True
            if in_err and len(errlines) < 400:
                errlines.append(line)
            if time.time() - t0 > timeout:
                res.timed_out = True
                proc.kill()
                break
    finally:
        try:
            proc.wait(timeout=30)
        except Exception:
            proc.kill()
    res.wall = time.time() - t0
    res.errtext = "\n".join(errlines)
    if proc.returncode not in (0, None) and res.ok and not res.timed_out:
        # TLC exit codes: 0 ok, 12 invariant violation, 13 property violation, ...
        res.ok = False
        res.error = res.error or ("TLC exited with status %s" % proc.returncode)
    shutil.rmtree(work, ignore_errors=True)
    return res


def sany(module_file):
    p = subprocess.run(["java", "-cp", JAR, "tla2sany.SANY", module_file], cwd=SPEC,
                       capture_output=True, text=True)
    ok = p.returncode == 0 and "Semantic errors" not in p.stdout and "***Parse Error***" not in p.stdout \
        and "Fatal errors" not in p.stdout
    return ok, p.stdout + p.stderr


# --------------------------------------------------------------------------
# known findings
# --------------------------------------------------------------------------
class KnownFindings:
    def __init__(self, prop):
        path = os.path.join(VERIF, "known_findings.json")
        data = json.load(open(path)) if os.path.exists(path) else {"findings": []}
        self.entries = [e for e in data.get("findings", []) if e.get("property") == prop]
        self.open = [e for e in self.entries if e.get("status") == "open"]
        self.hits = collections.Counter()
        self.examples = {}

    def match(self, tags, kind=None, detail=None):
        """Return the open entry explaining a divergence carrying `tags`, or None."""
        for e in self.open:
            if e["tag"] in tags:
                kinds = e.get("diverge_kinds")
                if kinds and kind not in kinds:
                    continue
                return e
        return None

    def record(self, entry, example=None):
        self.hits[entry["id"]] += 1
        if example is not None and entry["id"] not in self.examples:
            self.examples[entry["id"]] = example

    def report_lines(self, prop):
        out = []
        for e in self.open:
            n = self.hits.get(e["id"], 0)
            if n:
                out.append("KNOWN-FINDING: property=%s %s [%s; %d behaviour(s) this run]"
                           % (prop, e["what"], e["id"], n))
        return out


# --------------------------------------------------------------------------
# parallel replay of behaviours
# --------------------------------------------------------------------------
class Diverge(Exception):
    def __init__(self, step, kind, msg, expected=None, observed=None):
        Exception.__init__(self, msg)
        self.step, self.kind, self.msg = step, kind, msg
        self.expected, self.observed = expected, observed


_DRIVERS = {}


def _load_driver(name):
    if name not in _DRIVERS:
        import importlib
        import_param()
        _DRIVERS[name] = importlib.import_module("harness.drivers." + name)
    return _DRIVERS[name]


def _replay_chunk(args):
    """Worker: replay a list of raw BEHAVIOUR lines with driver `name`.
    Returns a list of compact result tuples."""
    name, lines, opts = args
    drv = _load_driver(name)
    out = []
    for line in lines:
        beh = None
        try:
            beh = decode_behaviour(line) if isinstance(line, str) else line
            r = drv.replay(beh, opts)
            # r: dict(status, nontrivial, step, kind, msg, tags, expected, observed, key)
            r.setdefault("status", "ok")
            if r["status"] != "ok":
                r["behaviour"] = beh
                r["driver"], r["opts"] = name, opts
            out.append(r)
        except Exception as e:
            # An exception that escaped the driver.  If it was *raised inside the library under test* while
            # executing a behaviour of the specification (all of whose steps are inside the property's domain),
            # the library failed where the specification says the operation succeeds: a divergence.  If it was
            # raised by the harness's own code it is a machinery failure (exit 2), never a violation.
            tb = e.__traceback__
            last = None
            while tb is not None:
                last = tb.tb_frame.f_code.co_filename
                tb = tb.tb_next
            lib = os.path.realpath(REPO) + os.sep
            if last and os.path.realpath(last).startswith(lib) and not isinstance(e, MachineryError):
                out.append({"status": "diverge", "step": -1, "kind": "exception",
                            "msg": "the library raised %s: %s (at %s) while replaying a behaviour the specification allows"
                                   % (type(e).__name__, str(e)[:200], os.path.relpath(last, lib)),
                            "expected": None, "observed": repr(e), "tags": [], "nontrivial": True, "kf": [],
                            "behaviour": beh, "driver": name, "opts": opts,
                            "trace": traceback.format_exc()[-1500:]})
            else:
                out.append({"status": "error", "msg": "%s: %s\n%s" % (type(e).__name__, e, traceback.format_exc()[-1500:]),
                            "behaviour": line if not isinstance(line, str) else line[:2000]})
    return out


class ReplayStats:
    def __init__(self):
        self.n = 0
        self.ok = 0
        self.nontrivial = 0
        self.known = 0
        self.violations = []      # result dicts
        self.errors = []
        self.samples = []
        self.distinct = set()
        self.sigs = collections.Counter()
        self.kf_hits = collections.Counter()


class Replayer:
    """Feeds behaviour lines to a process pool running driver.replay."""

    def __init__(self, driver, opts=None, nproc=NCPU, chunk=200, sample_every=997, max_keep=50):
        self.driver, self.opts = driver, opts or {}
        self.chunk, self.buf = chunk, []
        self.pending = collections.deque()
        self.stats = ReplayStats()
        self.nproc = nproc
        self.sample_every = sample_every
        self.max_keep = max_keep
        ctx = multiprocessing.get_context("fork")
        self.pool = ctx.Pool(nproc) if nproc > 1 else None

    def feed(self, line):
        h = hashlib.blake2b(line.encode() if isinstance(line, str) else json.dumps(line, sort_keys=True).encode(),
                            digest_size=8).digest()
        if h in self.stats.distinct:
            return
        self.stats.distinct.add(h)
        self.buf.append(line)
        if len(self.buf) >= self.chunk:
            self._flush()

    def _flush(self):
        if not self.buf:
            return
        job = (self.driver, self.buf, self.opts)
        self.buf = []
        if self.pool is None:
            self._absorb(_replay_chunk(job))
        else:
            self.pending.append(self.pool.apply_async(_replay_chunk, (job,)))
            while len(self.pending) > 4 * self.nproc:
                self._absorb(self.pending.popleft().get())

    def _absorb(self, results):
        st = self.stats
        for r in results:
            st.n += 1
            if r.get("nontrivial"):
                st.nontrivial += 1
            for t in r.get("kf", ()):
                st.kf_hits[t] += 1
            if r["status"] == "ok":
                st.ok += 1
                if r.get("sample") is not None and (st.n % self.sample_every == 1) and len(st.samples) < 3:
                    st.samples.append(r["sample"])
            elif r["status"] == "error":
                if len(st.errors) < self.max_keep:
                    st.errors.append(r)
            else:
                st.violations.append(r) if len(st.violations) < 5000 else None

    def finish(self):
        self._flush()
        while self.pending:
            self._absorb(self.pending.popleft().get())
        if self.pool is not None:
            self.pool.close()
            self.pool.join()
        return self.stats


# --------------------------------------------------------------------------
# evidence / verdict
# --------------------------------------------------------------------------
def write_evidence(prop, tier, seed, level, coverage, wall, violations, assumptions=None):
    evdir = os.environ.get("VERIF_EVIDENCE_DIR") or os.path.join(VERIF, "evidence")
    os.makedirs(evdir, exist_ok=True)
    ev = {"property_id": prop, "tier": tier, "seed": int(seed), "level": level,
          "coverage": coverage, "wall_s": round(wall, 2), "violations": int(violations),
          "assumptions": assumptions or []}
    path = os.path.join(evdir, prop + ".json")
    tmp = path + ".tmp"
    with open(tmp, "w") as fh:
        json.dump(ev, fh, indent=1, sort_keys=True, default=str)
    os.replace(tmp, path)
    return path


def write_replay(prop, payload):
    d = os.path.join(os.environ.get("VERIF_EVIDENCE_DIR") or VERIF, "replays")
    os.makedirs(d, exist_ok=True)
    h = hashlib.blake2b(json.dumps(payload, sort_keys=True, default=str).encode(), digest_size=6).hexdigest()
    path = os.path.join(d, "%s-%s.json" % (prop, h))
    with open(path, "w") as fh:
        json.dump(payload, fh, indent=1, default=str)
    return path
