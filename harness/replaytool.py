"""./check <id> --replay <path>: re-execute one recorded divergence on the current tree."""
import json

from harness import core


def replay_file(prop, path):
    d = json.load(open(path))
    if d.get("tlc_trace"):
        print("specification-level counterexample (TLC):")
        print(d["tlc_trace"])
        return 1
    beh, drv, opts = d.get("behaviour"), d.get("driver"), d.get("opts") or {}
    if beh is None or drv is None:
        print("replay file has no behaviour/driver; message was:", d.get("msg"))
        return 2
    res = core._replay_chunk((drv, [beh], opts))[0]
    steps = beh if isinstance(beh, list) else beh.get("steps", [])
    for i, s in enumerate(steps if isinstance(steps, list) else []):
        mark = "  <-- diverges here" if res.get("status") == "diverge" and res.get("step") == i else ""
        print("%3d %s%s" % (i, json.dumps(s, sort_keys=True, default=str)[:300], mark))
    if res["status"] == "ok":
        print("conforms on the current tree")
        return 0
    print("%s: %s" % (res["status"], res.get("msg")))
    print(" expected:", res.get("expected"))
    print(" observed:", res.get("observed"))
    if res["status"] == "error":
        return 2
    e = core.KnownFindings(prop).match(res.get("tags") or [], res.get("kind"))
    if e is not None:
        print("KNOWN-FINDING: property=%s %s [%s]" % (prop, e["what"], e["id"]))
        return 0
    print("VIOLATION property=%s replay=%s" % (prop, path))
    return 1
