"""C07: decided on spec/DependsPath.tla."""
import threading
import time

from harness import core, pipeline


def cfg(d, l, m, ops, hist):
    return ("CONSTANTS\n DepSets <- %s\n Leaves <- %s\n Mids <- %s\n MaxOps = %d\n RecordHist = %s\nINIT Init\nNEXT Next\n"
            "CHECK_DEADLOCK FALSE\n%s\n" % (d, l, m, ops, "TRUE" if hist else "FALSE",
                                            "INVARIANT Emit" if hist else "INVARIANT TypeOK\nPROPERTY DetachedSilent\nPROPERTY OnceHasWitness"))


def ccfg(two, ops, hist):
    return ("CONSTANTS\n M1 <- M1s\n M2 <- M2s\n Leaves <- Ls\n TwoLeaves = %s\n MaxOps = %d\n RecordHist = %s\nINIT Init\nNEXT Next\n"
            "CHECK_DEADLOCK FALSE\n%s\n" % ("TRUE" if two else "FALSE", ops, "TRUE" if hist else "FALSE",
                                            "INVARIANT Emit" if hist else "INVARIANT TypeOK\nPROPERTY DetachedSilent"))


def run(prop, tier, seed):
    t0 = time.time()
    quick = tier == "quick"
    M = "MC_DependsPath.tla"
    props = [{"module": "MC_DependsChain.tla", "cfg": "C07_pc.cfg", "extra_defs": {"C07_pc.cfg": ccfg(True, 2 if quick else 3, False)}},
             {"module": M, "cfg": "C07_p.cfg", "extra_defs": {"C07_p.cfg": cfg("DAll", "L2", "M2", 3 if quick else 4, False)}}]
    gens = [{"module": M, "cfg": "C07_g.cfg", "workers": 8, "extra_defs": {"C07_g.cfg": cfg("DAll", "L2", "M2", 2 if quick else 3, True)}},
            {"module": M, "cfg": "C07_s.cfg", "workers": 8, "simulate": 400 if quick else 20000, "depth": 10, "seed": seed,
             "extra_defs": {"C07_s.cfg": cfg("DAll", "L3", "M2", 8, True)}}]
    with core.Scratch() as scratch:
        box = {}
        th = threading.Thread(target=lambda: box.setdefault("st", pipeline.tlc_prop_stage(props, scratch, 2400)))
        th.start()
        rst = pipeline.replay_stage(gens, "dependspath", {"tolerate": [e["tag"] for e in core.KnownFindings(prop).open]}, scratch, 2400)
        cg = []
        for two in (False, True):
            n = "C07_c%d.cfg" % two
            cg.append({"module": "MC_DependsChain.tla", "cfg": n, "workers": 8, "simulate": 250 if quick else 10000, "depth": 8, "seed": seed,
                       "extra_defs": {n: ccfg(two, 6, True)}})
        cst = pipeline.replay_stage(cg, "dependschain", {}, scratch, 1200, name="replay_depth3")
        th.join()
    return pipeline.finish(prop, tier, seed, t0, [box["st"], rst, cst],
                           rule="non-trivial: at least one step of the history must invoke the dependent method (the value reached through a current path changed)",
                           assumptions=["dependency sets: a.x; a.x+a.y; a.param; a.x+c.x; a.b.x; a.b.x+a.b.y; a.b.x+c.x; 2-3 leaf objects, 2 intermediate objects, all initial attachments",
                                        "when a path starts or stops resolving, or is rearranged while not resolving, the property makes no claim (any number of invocations is accepted)",
                                        "leaf objects carry the same explicit name so that 'a.param' is sensitive to x and y only"])
