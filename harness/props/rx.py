"""C09: decided on spec/Rx.tla (plus the operator table of spec/RxOps.tla)."""
import threading
import time

from harness import core, pipeline


def cfg(ex, ops, hist):
    return ("CONSTANTS\n Exprs <- %s\n MaxOps = %d\n RecordHist = %s\nINIT Init\nNEXT Next\nCHECK_DEADLOCK FALSE\n%s\n"
            % (ex, ops, "TRUE" if hist else "FALSE", "INVARIANT Emit" if hist else "INVARIANT TypeOK\nINVARIANT ReadCorrect"))


def run(prop, tier, seed):
    t0 = time.time()
    quick = tier == "quick"
    M = "MC_Rx.tla"
    props = [{"module": M, "cfg": "C09_p.cfg", "extra_defs": {"C09_p.cfg": cfg("EAll", 3 if quick else 4, False)}}]
    gens = [{"module": M, "cfg": "C09_g.cfg", "workers": 8, "extra_defs": {"C09_g.cfg": cfg("EAll", 2 if quick else 3, True)}},
            {"module": M, "cfg": "C09_s.cfg", "workers": 8, "simulate": 500 if quick else 20000, "depth": 10, "seed": seed,
             "extra_defs": {"C09_s.cfg": cfg("EAll", 7, True)}}]
    with core.Scratch() as scratch:
        box = {}
        th = threading.Thread(target=lambda: box.setdefault("st", pipeline.tlc_prop_stage(props, scratch, 2400)))
        th.start()
        rst = pipeline.replay_stage(gens, "rx", {"tolerate": [e["tag"] for e in core.KnownFindings(prop).open]}, scratch, 2400)
        ost = pipeline.replay_stage([{"module": "MC_RxOps.tla", "cfg": "MC_RxOps_gen.cfg", "workers": 4}], "rxops", {}, scratch, 900,
                                    name="replay_operator_table", chunk=10)
        th.join()
    return pipeline.finish(prop, tier, seed, t0, [box["st"], rst, ost],
                           rule="non-trivial: the history has at least one input update followed by a read (a cached value had to be invalidated), or is one row of the operator table",
                           assumptions=["inputs: two rx roots (0..2), one list root, one Parameter; 50 expression trees: every arithmetic / comparison operator in normal, reflected and two-reactive-operand form, unary operators, indexing, method call, pipe, map, and_/or_/not_/bool/len/in_, bound function as root and as argument, where (top-level, derived, as argument, nested, piped), shared sub-expressions, one input as root and argument",
                                        "expressions are built over inputs for which they have a value (building evaluates); a watched expression is not driven into an error",
                                        "repeated .rx.watch announcements of an unchanged value are not claimed either way",
                                        "operator table: for every binary / unary dunder Python dispatches the rx result is compared with the plain-Python result (or exception class) on the same operands"])
