"""C01: decided on spec/Validate.tla."""
import time

from harness import core, pipeline


def run(prop, tier, seed):
    t0 = time.time()
    M = "MC_Validate.tla"
    with core.Scratch() as scratch:
        pst = pipeline.tlc_prop_stage([{"module": M, "cfg": "MC_Validate_prop.cfg", "must_cover": []}], scratch, 900)
        rst = pipeline.replay_stage([{"module": M, "cfg": "MC_Validate_gen.cfg", "workers": 4}], "validate",
                                    {"tolerate": [e["tag"] for e in core.KnownFindings(prop).open]}, scratch, 900)
    rst.info["tables"] = rst.info.get("replayed", 0)
    return pipeline.finish(prop, tier, seed, t0, [pst, rst], exhaustive=True,
                           rule="one case = one (Parameter type, constraint configuration) table: every candidate value tried through declaration, constructor, instance attribute, class attribute, update and (where expressible) deserialization; non-trivial when the table has both accepted and rejected candidates",
                           assumptions=["23 Parameter types; bounds None/one-sided/two-sided x inclusivity x allow_None; candidates at, just inside and just outside each bound as int/float/Fraction/Decimal, NaN, +-inf, wrong kinds",
                                        "domain exclusions (documented or ambiguous): bool and callables for numeric types; a non-empty tuple default determines `length`; JSON strings sent to tuple types; datetimes for CalendarDateRange; file-system and numpy/pandas types",
                                        "the verdict must be the same on every route; exception class must be ValueError or TypeError"])
