"""C03, C04, C05 (and the plain-value clause of C02): decided on spec/ParamCore.tla."""
import os
import time

from harness import core, pipeline

INVS = ["TypeOK", "NoCallUnderCtx", "NoCallInsideUpdate", "QuiescentClean", "StillBatched",
        "NoDupQueued", "NoDupDelivery", "DeliveryOrdered", "QueuedDeferred"]


def cfg(params="P2", kind="K2", dom="D2", wc="WC3", acts="ActsAll", maxw=2, maxops=3, maxstack=6,
        maxfaults=2, hist=False, onabort="drop", invs=(), initws="IW0", upd=None, trg=None):
    lines = ["CONSTANTS", " Params <- %s" % params, " Kind <- %s" % kind, " Dom <- %s" % dom, " Bad = 9",
             " WCfgs <- %s" % wc, " InitWs <- %s" % initws, " Acts <- %s" % acts, " MaxW = %d" % maxw, " MaxOps = %d" % maxops,
             " MaxStack = %d" % maxstack, " MaxFaults = %d" % maxfaults,
             " RecordHist = %s" % ("TRUE" if hist else "FALSE"), ' OnAbort = "%s"' % onabort,
             "INIT Init", "NEXT Next", "CHECK_DEADLOCK FALSE"]
    if upd:
        lines.insert(1, " UpdItems <- %s" % upd)
    if trg:
        lines.insert(1, " TrigNames <- %s" % trg)
    for i in (invs or (["Emit"] if hist else INVS)):
        lines.append("INVARIANT " + i)
    return "\n".join(lines) + "\n"


KINDS = {"Ks": {"a": "int", "sa": "slot"}, "K2": {"a": "int", "b": "int"}, "K3e": {"a": "int", "e": "event"}, "Keq": {"a": "any", "b": "int"},
         "K3c": {"a": "int", "c": "const"}}


def calibrate_on_abort():
    """The property is silent on what happens to events already queued when a
    dispatch is aborted by an exception (dropped, or delivered before the
    exception continues).  Probe which one the code under test does."""
    param = core.import_param()

    class P(param.Parameterized):
        a = param.Integer(0)
        b = param.Integer(0)
    p = P()
    log = []

    def wq(ev):
        p.b = 1
    def boom(ev):
        raise RuntimeError
    p.param.watch(wq, "a", queued=True, precedence=0)
    p.param.watch(boom, "a", precedence=1)
    p.param.watch(lambda ev: log.append("b"), "b")
    try:
        p.a = 1
    except RuntimeError:
        pass
    during = list(log)
    return "flush" if during else "drop"


def run(prop, tier, seed):
    t0 = time.time()
    quick = tier == "quick"
    onabort = calibrate_on_abort()
    M = "MC_ParamCore.tla"
    tolerate = [e["tag"] for e in core.KnownFindings(prop).open]
    SIMW = 8
    nsim = 1000 if quick else 25000
    ex = 2 if quick else 3
    pm = 3 if quick else 4
    if prop == "C03":
        rule = "a behaviour is non-trivial when at least one watcher callback ran"
        props = [("p", cfg(acts="ActsAll", maxops=pm, onabort=onabort))]
        gens = [("g1", cfg(acts="ActsC03n", maxops=ex, hist=True, onabort=onabort, wc="WC5", initws="IW5", upd="UI2", trg="TN2"), "K2", None, None),
                ("g2", cfg(params="Peq", kind="Keq", dom="Deq", acts="ActsC03s", wc="WCeq", initws="IWeq", upd="UIeq", maxops=ex, hist=True, onabort=onabort), "Keq", None, None),
                ("s1", cfg(acts="ActsC03", maxops=6, maxstack=7, hist=True, onabort=onabort, wc="WC5", initws="IW5", maxw=3, upd="UI2", trg="TN2"), "K2", nsim, 100),
                ("s2", cfg(params="Peq", kind="Keq", dom="Deq", acts="ActsC03", wc="WCeq", initws="IWeq", upd="UIeq", trg="TN2", maxops=6, maxstack=7, maxw=3, hist=True, onabort=onabort), "Keq", nsim // 2, 100)]
        # Parameter-attribute ("slot") watchers and watch_values (kwargs-mode) watchers
        gens.append(("g3", cfg(params="Ps", kind="Ks", dom="Ds", wc="WCs", initws="IWs", acts="ActsC03sl", upd="UIs", trg="TNs", maxops=ex, hist=True, onabort=onabort), "Ks", None, None))
        gens.append(("s3", cfg(params="Ps", kind="Ks", dom="Ds", wc="WCs", initws="IWs", acts="ActsC03sl", upd="UIs", trg="TNs", maxops=6, maxstack=7, maxw=3, hist=True, onabort=onabort), "Ks", nsim // 2, 100))
        nt = "call"
    elif prop == "C04":
        rule = "non-trivial: a batching context was entered and at least one callback ran"
        props = [("p", cfg(acts="ActsAll", maxops=pm, onabort=onabort))]
        gens = [("g1", cfg(acts="ActsC04n", dom="D2ok", maxops=ex, hist=True, onabort=onabort, initws="IW3" if quick else "IWq", upd="UI2", trg="TN2"), "K2", None, None),
                ("g2", cfg(params="P3e", kind="K3e", dom="D3e", wc="WCe", initws="IWe", acts="ActsC04n", upd="UIe", trg="TNe", maxops=ex, hist=True, onabort=onabort), "K3e", None, None),
                ("s1", cfg(acts="ActsC04", dom="D2ok", maxops=7, maxstack=7, hist=True, onabort=onabort, wc="WC5", initws="IW5", maxw=3, upd="UI2", trg="TN2"), "K2", nsim, 120),
                ("s2", cfg(params="P3e", kind="K3e", dom="D3e", wc="WCe", initws="IWe", acts="ActsC04", upd="UIe", trg="TNe", maxops=6, maxstack=7, maxw=3, hist=True, onabort=onabort), "K3e", nsim // 2, 120)]
        nt = "ctx"
    else:
        rule = "non-trivial: at least one fault (rejected value, raising callback, raising context body) occurred"
        props = [("p", cfg(acts="ActsAll", maxops=pm, onabort=onabort)),
                 ("pe", cfg(params="P3e", kind="K3e", dom="D3e", wc="WCe", acts="ActsAll", maxops=pm, onabort=onabort))]
        gens = [("g1", cfg(acts="ActsC05n", maxops=ex, hist=True, onabort=onabort, initws="IW3" if quick else "IWq", upd="UI2bad", trg="TN2"), "K2", None, None),
                ("g2", cfg(params="P3e", kind="K3e", dom="D3e", wc="WCe", initws="IWe", acts="ActsC05n", upd="UIebad", trg="TNe", maxops=ex, hist=True, onabort=onabort), "K3e", None, None),
                ("g3", cfg(params="P3c", kind="K3c", dom="D3c", wc="WC1", initws="IW1", acts="ActsC05n", upd="UIc", trg="TNc", maxops=ex, hist=True, onabort=onabort), "K3c", None, None),
                ("g4", cfg(acts="ActsNest", maxops=4, maxstack=7, maxfaults=2, hist=True, onabort=onabort, maxw=3, wc="WCnest", initws="IWnest", dom="D2ok", upd="UI2", trg="TN2"), "K2", None, None),
                ("g5", cfg(params="Ps", kind="Ks", dom="Ds", acts="ActsNest", maxops=4, maxstack=7, maxfaults=2, hist=True, onabort=onabort, maxw=3, wc="WCsnest", initws="IWsnest", upd="UIs", trg="TNs"), "Ks", None, None),
                ("s1", cfg(acts="ActsC05", maxops=7, maxstack=7, maxfaults=3, hist=True, onabort=onabort, maxw=3, wc="WC5", initws="IW5", upd="UI2bad", trg="TN2"), "K2", nsim, 120),
                ("s2", cfg(params="P3e", kind="K3e", dom="D3e", wc="WCe", initws="IWe", acts="ActsC05", upd="UIebad", trg="TNe", maxops=6, maxstack=7, maxfaults=3, maxw=3, hist=True, onabort=onabort), "K3e", nsim // 2, 120)]
        nt = "fault"
    with core.Scratch() as scratch:
        pspecs = [{"module": M, "cfg": "%s_%s.cfg" % (prop, n), "extra_defs": {"%s_%s.cfg" % (prop, n): text},
                   "must_cover": ["StepSet", "StepFlush", "StepUpdate", "StepTrigger", "Unwind", "Return"]}
                  for n, text in props]
        box = {}
        th = None
        import threading
        th = threading.Thread(target=lambda: box.setdefault("st", pipeline.tlc_prop_stage(pspecs, scratch, 1500)))
        th.start()
        gspecs = []
        for n, text, kinds, sim, depth in gens:
            g = {"module": M, "cfg": "%s_%s.cfg" % (prop, n), "extra_defs": {"%s_%s.cfg" % (prop, n): text},
                 "opts": {"kinds": KINDS[kinds]}, "workers": 4 if sim is None else SIMW}
            if sim:
                g.update(simulate=sim, depth=depth, seed=seed)
            gspecs.append(g)
        rst = pipeline.replay_stage(gspecs, "paramcore",
                                    {"nontrivial": nt, "probe": prop == "C05", "tolerate": tolerate}, scratch, 1500)
        stages = [rst]
        if prop == "C03":
            # the same programs dispatched on a class (class-level watchers, class attribute assignment)
            cg = [{"module": M, "cfg": "C03_cls.cfg", "workers": 4, "opts": {"kinds": KINDS["K2"], "owner": "class"},
                   "extra_defs": {"C03_cls.cfg": cfg(acts="ActsC03n", maxops=ex, hist=True, onabort=onabort, wc="WC5", initws="IW5", upd="UI2", trg="TN2")}},
                  {"module": M, "cfg": "C03_clss.cfg", "workers": SIMW, "simulate": nsim // 2, "depth": 100, "seed": seed,
                   "opts": {"kinds": KINDS["K2"], "owner": "class"},
                   "extra_defs": {"C03_clss.cfg": cfg(acts="ActsC03", maxops=6, maxstack=7, hist=True, onabort=onabort, wc="WC5", initws="IW5", maxw=3, upd="UI2", trg="TN2")}}]
            stages.append(pipeline.replay_stage(cg, "paramcore", {"nontrivial": nt, "tolerate": tolerate}, scratch, 1500, name="replay_class_level"))
            sg = [dict(g, cfg=g["cfg"].replace("cls", "sub"), extra_defs={k.replace("cls", "sub"): v for k, v in g["extra_defs"].items()},
                       opts=dict(g["opts"], owner="subclass")) for g in cg]
            stages.append(pipeline.replay_stage(sg, "paramcore", {"nontrivial": nt, "tolerate": tolerate}, scratch, 1500, name="replay_subclass_level"))
            est = pipeline.replay_stage([{"module": "MC_Equality.tla", "cfg": "MC_Equality_gen.cfg", "workers": 4}],
                                        "equality", {}, scratch, 900, name="replay_equality", chunk=4)
            pst2 = pipeline.tlc_prop_stage([{"module": "MC_Equality.tla", "cfg": "MC_Equality_prop.cfg"}], scratch, 600)
            pst2.name = "tlc_properties_equality"
            stages += [est, pst2]
        if prop == "C04":
            # "param.update(...) used as a context manager restores the previous values and links on exit"
            from harness.props import refs as refsmod
            n = "C04_refs.cfg"
            stages.append(pipeline.replay_stage(
                [{"module": "MC_Refs.tla", "cfg": n, "workers": 8, "simulate": 300 if quick else 10000, "depth": 10, "seed": seed,
                  "extra_defs": {n: refsmod.cfg("KAll", 5, True, acts="AUpd")}}], "refs", {}, scratch, 900, name="replay_update_context_links"))
        if prop in ("C04", "C05"):
            # Event parameters dispatched on a class and on a subclass that inherits them (the parent class is a bystander:
            # its Event must keep resetting itself)
            eg = []
            for ow in ("class", "subclass"):
                n = "%s_ev%s.cfg" % (prop, ow)
                eg.append({"module": M, "cfg": n, "workers": 4, "opts": {"kinds": KINDS["K3e"], "owner": ow},
                           "extra_defs": {n: cfg(params="P3e", kind="K3e", dom="D3e", wc="WCe", initws="IWe", acts="ActsC04n" if prop == "C04" else "ActsC05n",
                                                 upd="UIe" if prop == "C04" else "UIebad", trg="TNe", maxops=ex, hist=True, onabort=onabort)}})
            stages.append(pipeline.replay_stage(eg, "paramcore", {"nontrivial": nt, "tolerate": tolerate}, scratch, 1500, name="replay_event_class_level"))
        th.join()
    return pipeline.finish(prop, tier, seed, t0, [box["st"]] + stages, rule=rule,
                           assumptions=["small-scope: 2 parameters (+1 Event / constant), <=3 watchers from a fixed set of configurations, <=3-5 user operations exhaustively, longer by simulation",
                                        "value tokens 0/1 (+True, NaN, nested list, 1.0 for the equality domain); Bad=99 against Integer bounds (0,5)",
                                        "OnAbort calibrated on the code under test: " + onabort,
                                        "TLC 1.8, CPython 3.12; driver harness/drivers/paramcore.py maps tokens to Python values"],
                           extra_cov={"calibrated": {"OnAbort": onabort}})
