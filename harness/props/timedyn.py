"""C19: decided on spec/TimeDyn.tla."""
import threading
import time

from harness import core, pipeline


def cfg(ops, depth, hist):
    return ("CONSTANTS\n Slots <- S6\n GenOf <- G6\n InstOf <- I6\n Times <- T6\n MaxOps = %d\n MaxDepth = %d\n RecordHist = %s\n"
            "INIT Init\nNEXT Next\nCHECK_DEADLOCK FALSE\n%s\n" % (ops, depth, "TRUE" if hist else "FALSE",
                                                                "INVARIANT Emit" if hist else "INVARIANT TypeOK\nINVARIANT CacheIsTerm\nPROPERTY CtxRestores\nPROPERTY SameTimeSameValue"))


def run(prop, tier, seed):
    t0 = time.time()
    quick = tier == "quick"
    M = "MC_TimeDyn.tla"
    opts = {"gens": {"1": "A", "2": "B", "3": "A", "4": "K", "5": "C", "6": "N"}, "insts": {"1": 1, "2": 1, "3": 2, "4": 2, "5": 0, "6": 1},
            "tolerate": [e["tag"] for e in core.KnownFindings(prop).open]}
    props = [{"module": M, "cfg": "C19_p.cfg", "extra_defs": {"C19_p.cfg": cfg(4 if quick else 5, 2, False)}}]
    gens = [{"module": M, "cfg": "C19_g.cfg", "workers": 8, "extra_defs": {"C19_g.cfg": cfg(2 if quick else 3, 2, True)}},
            {"module": M, "cfg": "C19_s.cfg", "workers": 8, "simulate": 800 if quick else 20000, "depth": 14, "seed": seed,
             "extra_defs": {"C19_s.cfg": cfg(10, 3, True)}}]
    with core.Scratch() as scratch:
        box = {}
        th = threading.Thread(target=lambda: box.setdefault("st", pipeline.tlc_prop_stage(props, scratch, 2400)))
        th.start()
        rst = pipeline.replay_stage(gens, "timedyn", opts, scratch, 2400)
        th.join()
    return pipeline.finish(prop, tier, seed, t0, [box["st"], rst],
                           rule="non-trivial: the sequence contains at least one read or forced value of a time-dependent generator",
                           assumptions=["times -2..3 (includes the value -1; replayed both as small ints and as equal-but-not-identical large ints / Fractions), 4 slots: two generators with the same name and seed on different instances, one different generator and one plain counter callable; contexts nested to depth 2-3; state push/pop depth 2",
                                        "values are compared as terms <<generator identity, time>>: the check is that term -> float is a function over everything replayed by a worker process, not the numeric value itself",
                                        "numbergen.UniformRandom(time_dependent=True) with param.Dynamic.time_dependent=True and the global param.Dynamic.time_fn"])
