"""C20: decided on spec/Repr.tla."""
import time

from harness import core, pipeline


def cfg(hist, quick):
    q = "q" if quick else ""
    return ("CONSTANTS\n Shapes <- ShAll\n AVals <- AV%s\n BVals <- BV\n SVals <- SV%s\n LVals <- LV%s\n TVals <- TV%s\n SubVals <- SubV\n DVals <- DV%s\n DefAVals <- DefA\n"
            " NameVals <- NV\n RecordHist = %s\nINIT Init\nNEXT Next\nCHECK_DEADLOCK FALSE\n%s\n"
            % (q, q, q, q, q, "TRUE" if hist else "FALSE", "INVARIANT Emit" if hist else "INVARIANT Rebuilds\nINVARIANT KeywordsOnlyWhenNeeded"))


def run(prop, tier, seed):
    t0 = time.time()
    quick = tier == "quick"
    M = "MC_Repr.tla"
    with core.Scratch() as scratch:
        pst = pipeline.tlc_prop_stage([{"module": M, "cfg": "C20_p.cfg", "extra_defs": {"C20_p.cfg": cfg(False, quick)}}], scratch, 1200)
        rst = pipeline.replay_stage([{"module": M, "cfg": "C20_g.cfg", "workers": 8, "extra_defs": {"C20_g.cfg": cfg(True, quick)}}],
                                    "repr_", {"tolerate": [e["tag"] for e in core.KnownFindings(prop).open]}, scratch, 1200, chunk=50)
    return pipeline.finish(prop, tier, seed, t0, [pst, rst], exhaustive=True,
                           rule="one case = constructor-signature shape x a value token per parameter x kind of name; non-trivial when the predicted call has at least one argument",
                           assumptions=["signature shapes: **params only; two positional + **params; positional + keyword default (differing from the Parameter default) + **params; no **params",
                                        "value tokens: 0, positive, negative float, inf, 1e300; strings with quotes/backslashes/newline and non-BMP code points; empty / nested lists, lists holding 1-tuples and inf; 1-tuples; nested Parameterized objects (default and changed); explicit, auto and auto-looking names",
                                        "text parsed with ast and evaluated in a namespace holding only the classes (pprint) or populated by executing the emitted imports (script_repr)"])
