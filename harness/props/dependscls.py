"""C06: decided on spec/DependsCls.tla."""
import time

from harness import core, pipeline


def cfg(sh, m1, m2, r1, r2, hist):
    return ("CONSTANTS\n Shapes <- %s\n M1Decls <- %s\n M2Decls <- %s\n RootM1 <- %s\n RootM2 <- %s\n RecordHist = %s\n"
            "INIT Init\nNEXT Next\nCHECK_DEADLOCK FALSE\n%s\n" % (
                sh, m1, m2, r1, r2, "TRUE" if hist else "FALSE",
                "INVARIANT Emit" if hist else "INVARIANT UndecSilent\nINVARIANT OverrideReplaces"))


def run(prop, tier, seed):
    t0 = time.time()
    quick = tier == "quick"
    M = "MC_DependsCls.tla"
    if quick:
        sets = [("c", "SChain", "M1Q", "M2Q", "RootM1Q", "M2Q"), ("d", "SDiamond", "M1QD", "M2Q", "RootM1Q", "M2Q")]
    else:
        sets = [("c", "SChain", "M1T", "M2T", "RootM1T", "M2T"), ("d", "SDiamond", "M1Q", "M2T", "RootM1T", "M2Q")]
    props = [{"module": M, "cfg": "C06_p%s.cfg" % n, "extra_defs": {"C06_p%s.cfg" % n: cfg(sh, m1, m2, r1, r2, False)}} for n, sh, m1, m2, r1, r2 in sets]
    gens = [{"module": M, "cfg": "C06_g%s.cfg" % n, "workers": 8, "extra_defs": {"C06_g%s.cfg" % n: cfg(sh, m1, m2, r1, r2, True)}} for n, sh, m1, m2, r1, r2 in sets]
    with core.Scratch() as scratch:
        pst = pipeline.tlc_prop_stage(props, scratch, 2400)
        rst = pipeline.replay_stage(gens, "dependscls", {"tolerate": [e["tag"] for e in core.KnownFindings(prop).open]}, scratch, 2400, chunk=50)
        fst = pipeline.replay_stage([{"module": "MC_DependsFn.tla", "cfg": "MC_DependsFn_gen.cfg", "workers": 2}], "dependsfn", {}, scratch, 600,
                                    name="replay_function_form", chunk=2)
    return pipeline.finish(prop, tier, seed, t0, [pst, rst, fst], exhaustive=True,
                           rule="one case = one hierarchy (chain of 3 / diamond) x declarations of two dependent methods per class x instantiated class, run through a 10-operation probe program (same-value set, changing sets, Parameter-attribute change, updates and batches changing several / one / no dependency); every case exercises overrides or inheritance, so all are non-trivial",
                           assumptions=["dependency specs: parameter values, 'x:bounds', another method's name; on_init; watch='queued'",
                                        "a method named as a dependency is decorated wherever it is resolved (an undecorated dependency means 'all parameters': outside the domain)",
                                        "invocation order among different methods is not compared (the property fixes counts only); values read by the methods are compared"])
