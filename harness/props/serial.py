"""C15 (round trip) and C16 (schema) decided on spec/Serial.tla."""
import time

from harness import core, pipeline


def run(prop, tier, seed):
    t0 = time.time()
    M = "MC_Serial.tla"
    mode = "roundtrip" if prop == "C15" else "schema"
    with core.Scratch() as scratch:
        pst = pipeline.tlc_prop_stage([{"module": M, "cfg": "MC_Serial_prop.cfg"}], scratch, 900)
        rst = pipeline.replay_stage([{"module": M, "cfg": "MC_Serial_gen.cfg", "workers": 4}], "serial",
                                    {"mode": mode, "tolerate": [e["tag"] for e in core.KnownFindings(prop).open]}, scratch, 900, chunk=5)
    if prop == "C15":
        rule = "one case = one (Parameter type, configuration) with all its enumerated valid values, serialized and rebuilt at instance and class level, per value and per object, with and without subset; non-trivial when more than one value"
        ass = ["values: ints, floats (incl. a non-representable decimal), strings with quotes/backslash/newline/non-BMP, booleans, None where allowed, tuples, nested lists/dicts, naive datetimes with and without microseconds, calendar dates, date-only and datetime ranges",
               "container values hold JSON-native scalars, lists and string-keyed dicts (tuples nested inside containers and non-string keys are outside the domain: JSON cannot carry them)",
               "comparison is by value and exact Python type"]
    else:
        rule = "one case = one (Parameter type, constraint configuration): schema well-formedness, every enumerated valid state validated, and for Number/Integer twelve probe numbers around the bounds; non-trivial when there are several values or probes"
        ass = ["independent validator: jsonschema Draft7Validator run under python3-vt on JSON text only",
               "bool where an int is declared and Selector defaults of None without allow_None are outside the domain",
               "format is an annotation (not asserted), as in JSON Schema draft 7"]
    return pipeline.finish(prop, tier, seed, t0, [pst, rst], exhaustive=True, rule=rule, assumptions=ass)
