"""C11: decided on spec/Inherit.tla."""
import time

from harness import core, pipeline


def cfg(shapes, decls, roots, leaves, hist):
    lines = ["CONSTANTS", " Shapes <- %s" % shapes, " Decls <- %s" % decls, " RootDecls <- %s" % roots,
             " LeafDecls <- %s" % leaves, " RecordHist = %s" % ("TRUE" if hist else "FALSE"),
             "INIT Init", "NEXT Next", "CHECK_DEADLOCK FALSE"]
    for i in (["Emit"] if hist else ["RevalidationSufficient", "NoContradiction", "InstantiateInherited"]):
        lines.append("INVARIANT " + i)
    return "\n".join(lines) + "\n"


def run(prop, tier, seed):
    t0 = time.time()
    quick = tier == "quick"
    M = "MC_Inherit.tla"
    if quick:
        sets = [("chain", "ShapesChain", "DeclsQ", "RootQ", "DeclsQ"), ("diam", "ShapesDiamond", "DeclsQD", "RootQ", "RootQ")]
    else:
        sets = [("chain", "ShapesChain", "DeclsT", "DeclsT", "DeclsT"), ("diam", "ShapesDiamond", "DeclsT", "RootQ", "DeclsQ")]
    sets += [("meta", "ShapesAll" if not quick else "ShapesChain", "DeclsM", "DeclsM", "DeclsM"),
             ("inst", "ShapesAll" if not quick else "ShapesChain", "DeclsI", "DeclsI", "DeclsI"),
             ("list", "ShapesAll" if not quick else "ShapesChain", "DeclsL", "DeclsL", "DeclsL"),
             ("sel", "ShapesAll" if not quick else "ShapesChain", "DeclsS", "DeclsS", "DeclsS")]
    props, gens = [], []
    for n, sh, d, r, l in sets:
        props.append({"module": M, "cfg": "C11_p%s.cfg" % n, "extra_defs": {"C11_p%s.cfg" % n: cfg(sh, d, r, l, False)}})
        gens.append({"module": M, "cfg": "C11_g%s.cfg" % n, "workers": 8, "extra_defs": {"C11_g%s.cfg" % n: cfg(sh, d, r, l, True)}})
    with core.Scratch() as scratch:
        pst = pipeline.tlc_prop_stage(props, scratch, 2400)
        rst = pipeline.replay_stage(gens, "inherit", {"tolerate": [e["tag"] for e in core.KnownFindings(prop).open]}, scratch, 2400)
    return pipeline.finish(prop, tier, seed, t0, [pst, rst], exhaustive=True,
                           rule="one case = one hierarchy (shape x declaration per class), built with type() and again with add_parameter; non-trivial when some class redeclares the Parameter leaving at least one attribute unspecified",
                           assumptions=["shapes: chain of 3, chain with a skipping class, diamond D(B,C) and D(C,B) over a common root",
                                        "declarations from a curated set of 21 (plus 9 that exercise the remaining metadata attributes -- label, precedence, pickle_default_value, allow_refs, nested_refs, per_instance, step, softbounds -- and 10 with instantiate=True ancestors across type changes) (Parameter/Number/Integer/String x default/bounds/doc/constant/allow_None/instantiate specified or not); declarations whose own constructor raises are outside the domain",
                                        "every attribute compared: default, bounds, inclusive_bounds, doc, constant, allow_None, instantiate, label, precedence, pickle_default_value, allow_refs, nested_refs, per_instance, step, softbounds, Parameter type, and whether class creation raised"])
