"""C08 (spec/Refs.tla) and C02 (rejected assignments: ParamCore + Refs + ClassModel)."""
import threading
import time

from harness import core, pipeline
from harness.props import classmodel, dispatch


def cfg(kinds, ops, hist, acts="AAll", clamp=False):
    return ("CONSTANTS\n Kinds <- %s\n Acts <- %s\n MaxOps = %d\n RecordHist = %s\n Clamp = %s\nINIT Init\nNEXT Next\nCHECK_DEADLOCK FALSE\n%s\n"
            % (kinds, acts, ops, "TRUE" if hist else "FALSE", "TRUE" if clamp else "FALSE",
               "INVARIANT Emit" if hist else "INVARIANT TypeOK\nINVARIANT Mirror\nPROPERTY OverrideEnds"))


def run(prop, tier, seed):
    t0 = time.time()
    quick = tier == "quick"
    M = "MC_Refs.tla"
    tol = [e["tag"] for e in core.KnownFindings(prop).open]
    with core.Scratch() as scratch:
        props = [{"module": M, "cfg": "%s_p.cfg" % prop, "extra_defs": {"%s_p.cfg" % prop: cfg("KProp" if quick else "KAll", 2 if quick else 3, False)}}]
        gens = [{"module": M, "cfg": "%s_g.cfg" % prop, "workers": 8, "extra_defs": {"%s_g.cfg" % prop: cfg("KNoK" if quick else "KAll", 1 if quick else 2, True)}},
                {"module": M, "cfg": "%s_s.cfg" % prop, "workers": 8, "simulate": 500 if quick else 20000, "depth": 10, "seed": seed,
                 "extra_defs": {"%s_s.cfg" % prop: cfg("KAll", 6, True)}},
                # the same with target Parameters shared by all instances (per_instance=False)
                {"module": M, "cfg": "%s_sn.cfg" % prop, "workers": 8, "simulate": 250 if quick else 10000, "depth": 10, "seed": seed + 1,
                 "opts": {"perinst": False}, "extra_defs": {"%s_sn.cfg" % prop: cfg("KAll", 6, True)}},
                # the constant target is readonly
                {"module": M, "cfg": "%s_gr.cfg" % prop, "workers": 8, "extra_defs": {"%s_gr.cfg" % prop: cfg("KRo", 1 if quick else 2, True)}},
                {"module": M, "cfg": "%s_sr.cfg" % prop, "workers": 8, "simulate": 250 if quick else 10000, "depth": 10, "seed": seed + 3,
                 "opts": {"perinst": False}, "extra_defs": {"%s_sr.cfg" % prop: cfg("KRo", 6, True)}},
                # sources that clamp their own value while it is being dispatched
                {"module": M, "cfg": "%s_gc.cfg" % prop, "workers": 8, "extra_defs": {"%s_gc.cfg" % prop: cfg("KClamp", 1 if quick else 2, True, clamp=True)}},
                {"module": M, "cfg": "%s_sc.cfg" % prop, "workers": 8, "simulate": 250 if quick else 10000, "depth": 10, "seed": seed + 2,
                 "extra_defs": {"%s_sc.cfg" % prop: cfg("KClamp", 6, True, clamp=True)}}]
        box = {}
        stages = []
        if prop == "C02":
            # the plain-value clause on the dispatcher: rejected set / update items with watchers present
            props.append({"module": "MC_ParamCore.tla", "cfg": "C02_pc.cfg",
                          "extra_defs": {"C02_pc.cfg": dispatch.cfg(acts="ActsAll", maxops=3 if quick else 4)}})
        th = threading.Thread(target=lambda: box.setdefault("st", pipeline.tlc_prop_stage(props, scratch, 2400)))
        th.start()
        opts = {"tolerate": tol}
        if prop == "C02":
            opts["nontrivial"] = "rejected"
        stages.append(pipeline.replay_stage(gens, "refs", opts, scratch, 2400))
        if prop == "C02":
            g = [{"module": "MC_ParamCore.tla", "cfg": "C02_gd.cfg", "workers": 4, "opts": {"kinds": dispatch.KINDS["K2"]},
                  "extra_defs": {"C02_gd.cfg": dispatch.cfg(acts="ActsC02", maxops=2 if quick else 3, hist=True, initws="IW3", upd="UI2bad", trg="TN2")}},
                 {"module": "MC_ParamCore.tla", "cfg": "C02_gc.cfg", "workers": 4, "opts": {"kinds": dispatch.KINDS["K3c"]},
                  "extra_defs": {"C02_gc.cfg": dispatch.cfg(params="P3c", kind="K3c", dom="D3c", wc="WC1", initws="IW1", acts="ActsC02", upd="UIc", trg="TNc", maxops=2 if quick else 3, hist=True)}},
                 {"module": "MC_ParamCore.tla", "cfg": "C02_ge.cfg", "workers": 4, "opts": {"kinds": dispatch.KINDS["K3e"]},
                  "extra_defs": {"C02_ge.cfg": dispatch.cfg(params="P3e", kind="K3e", dom="D3eb", wc="WCe", initws="IWe", acts="ActsC02", upd="UIebad", trg="TNe", maxops=2 if quick else 3, hist=True)}},
                 {"module": "MC_ParamCore.tla", "cfg": "C02_sd.cfg", "workers": 8, "simulate": 500 if quick else 20000, "depth": 100, "seed": seed,
                  "opts": {"kinds": dispatch.KINDS["K2"]},
                  "extra_defs": {"C02_sd.cfg": dispatch.cfg(acts="ActsC02", maxops=6, maxstack=7, maxfaults=4, hist=True, initws="IW5", wc="WC5", maxw=3, upd="UI2bad", trg="TN2")}}]
            st2 = pipeline.replay_stage(g, "paramcore", {"nontrivial": "fault", "probe": True,
                                                         "tolerate": [e["tag"] for e in core.KnownFindings("C05").open]},
                                        scratch, 2400, name="replay_dispatch")
            stages.append(st2)
            n = "C02_cm.cfg"
            g = [{"module": "MC_ClassModel.tla", "cfg": n, "workers": 4,
                  "opts": {"kinds": classmodel.KINDS["K14"], "bases": {"A": [], "B": ["A"]}, "nontrivial": "rejected"},
                  "extra_defs": {n: classmodel.cfg("Cl2", "K14", "A02", 3, 2, True)}}]
            if not quick:
                # (exhaustive generation at depth 4 no longer fits the Java heap: depth 3 exhaustively plus random deeper behaviours)
                n2 = "C02_cms.cfg"
                g.append({"module": "MC_ClassModel.tla", "cfg": n2, "workers": 8, "simulate": 20000, "depth": 14, "seed": seed,
                          "opts": {"kinds": classmodel.KINDS["K14"], "bases": {"A": [], "B": ["A"]}, "nontrivial": "rejected"},
                          "extra_defs": {n2: classmodel.cfg("Cl2", "K14", "A02", 6, 2, True)}})
            stages.append(pipeline.replay_stage(g, "classmodel", {"tolerate": [e["tag"] for e in core.KnownFindings("C14").open]},
                                                scratch, 2400, name="replay_classmodel"))
        if prop == "C02":
            from harness.props import timedyn
            n = "C02_td.cfg"
            g = [{"module": "MC_TimeDyn.tla", "cfg": n, "workers": 8, "simulate": 300 if quick else 5000, "depth": 12, "seed": seed,
                  "extra_defs": {n: timedyn.cfg(8, 2, True)}}]
            stages.append(pipeline.replay_stage(g, "timedyn", {"gens": {"1": "A", "2": "B", "3": "A", "4": "K", "5": "C", "6": "N"}, "insts": {"1": 1, "2": 1, "3": 2, "4": 2, "5": 0, "6": 1},
                                                               "nontrivial": "rejected"}, scratch, 900, name="replay_dynamic_generators"))
        th.join()
    if prop == "C08":
        rule = "non-trivial: the history contains at least one source update (links are exercised)"
    else:
        rule = "non-trivial: the history contains at least one rejected assignment (invalid plain value, invalid-valued reference, constant/readonly violation; instance, class and update routes)"
    # findings of other properties tolerated inside C02's borrowed stages are not C02's findings
    for s in stages[1:]:
        s.info["kf_hits"] = {}
    return pipeline.finish(prop, tier, seed, t0, [box["st"]] + stages, rule=rule,
                           assumptions=["two sources, one target with two scalar linked parameters and one nested_refs container parameter; reference kinds Parameter, bind of one and of two parameters, rx expression, list holding a reference",
                                        "watchers 'on the target's behalf' are identified as watchers whose callback is the target's Parameters._sync_refs bound method",
                                        "a source update that makes several linked values invalid at once is outside the domain (order-dependent)"])
