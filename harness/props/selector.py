"""C18: decided on spec/SelectorObjs.tla."""
import threading
import time

from harness import core, pipeline


def cfg(objects="O4", keys="K3", maxops=3, maxlen=3, hist=False, dictdecl=False, multi=False):
    lines = ["CONSTANTS", " Objects <- %s" % objects, " Keys <- %s" % keys, " MaxOps = %d" % maxops,
             " MaxLen = %d" % maxlen, " RecordHist = %s" % ("TRUE" if hist else "FALSE"),
             " DictDeclared = %s" % ("TRUE" if dictdecl else "FALSE"), " Multi = %s" % ("TRUE" if multi else "FALSE"),
             "INIT Init", "NEXT Next", "CHECK_DEADLOCK FALSE"]
    for i in (["Emit"] if hist else ["TypeOK", "ViewsAgree", "StyleKept", "Unique"]):
        lines.append("INVARIANT " + i)
    return "\n".join(lines) + "\n"


def run(prop, tier, seed):
    t0 = time.time()
    quick = tier == "quick"
    M = "MC_SelectorObjs.tla"
    props, gens = [], []
    for d in (False, True):
        for m in (False, True):
            tag = ("d" if d else "l") + ("m" if m else "s")
            props.append({"module": M, "cfg": "C18_p%s.cfg" % tag,
                          "extra_defs": {"C18_p%s.cfg" % tag: cfg(maxops=4 if quick else 6, dictdecl=d, multi=m)},
                          "must_cover": ["PopIndex", "Remove_", "Clear_", "Replace_"]})
            n = "C18_g%s.cfg" % tag
            gens.append({"module": M, "cfg": n, "workers": 4,
                         "extra_defs": {n: cfg(objects="O3", keys="K2", maxops=2 if quick else 3, hist=True, dictdecl=d, multi=m)}})
            n = "C18_s%s.cfg" % tag
            gens.append({"module": M, "cfg": n, "workers": 4, "simulate": 400 if quick else 10000, "depth": 12, "seed": seed,
                         "extra_defs": {n: cfg(maxops=8, maxlen=4, hist=True, dictdecl=d, multi=m)}})
    with core.Scratch() as scratch:
        box = {}
        th = threading.Thread(target=lambda: box.setdefault("st", pipeline.tlc_prop_stage(props, scratch, 1200)))
        th.start()
        rst = pipeline.replay_stage(gens, "selector", {}, scratch, 1200)
        th.join()
    return pipeline.finish(prop, tier, seed, t0, [box["st"], rst],
                           rule="non-trivial: the behaviour contains at least one mutation of `objects` (not only value assignments)",
                           assumptions=["objects are distinct hashable strings, keys distinct strings; style-consistent operations, unique objects (the property's own quantifier)",
                                        "a mutation that changes nothing (clear() of an empty list, extend([])) may or may not notify",
                                        "TLC 1.8, CPython 3.12; driver harness/drivers/selector.py"])
