"""C10: decided on spec/AsyncRef.tla, spec/RxAsync.tla and spec/RxLazy.tla."""
import time

from harness import core, pipeline, steploop


def cfg_a(k, n, ms, hist):
    return ("CONSTANTS\n N = %d\n KindsA <- %s\n MaxSteps = %d\n RecordHist = %s\nINIT Init\nNEXT Next\nCHECK_DEADLOCK FALSE\n%s\n"
            % (n, k, ms, "TRUE" if hist else "FALSE",
               "INVARIANT Emit" if hist else "INVARIANT TypeOK\nINVARIANT LatestWins\nINVARIANT NoLateApply\nINVARIANT PlainCancels"))


def cfg_r(n, ms, hist):
    return ("CONSTANTS\n N = %d\n MaxSteps = %d\n RecordHist = %s\nINIT Init\nNEXT Next\nCHECK_DEADLOCK FALSE\n%s\n"
            % (n, ms, "TRUE" if hist else "FALSE", "INVARIANT Emit" if hist else "INVARIANT TypeOK\nINVARIANT LatestWins\nINVARIANT SeenIncreasing"))


def cfg_l(n, mu, ms, hist):
    return ("CONSTANTS\n N = %d\n MaxUpd = %d\n MaxSteps = %d\n RecordHist = %s\nINIT Init\nNEXT Next\nCHECK_DEADLOCK FALSE\n%s\n"
            % (n, mu, ms, "TRUE" if hist else "FALSE", "INVARIANT Emit" if hist else "INVARIANT TypeOK\nINVARIANT LatestWins\nINVARIANT NeverLost"))


def run(prop, tier, seed):
    t0 = time.time()
    quick = tier == "quick"
    try:
        steploop.selftest()
    except Exception as e:  # noqa
        print("MACHINERY-FAILURE: step loop self-test failed (asyncio internals differ from CPython 3.12?): %r" % e)
        return 2
    with core.Scratch() as scratch:
        props = [{"module": "MC_AsyncRef.tla", "cfg": "C10_pa.cfg", "extra_defs": {"C10_pa.cfg": cfg_a("KAll", 3, 16 if quick else 22, False)},
                  "must_cover": ["Tick", "AssignPlain"]},
                 {"module": "MC_RxAsync.tla", "cfg": "C10_pr.cfg", "extra_defs": {"C10_pr.cfg": cfg_r(4, 24, False)}},
                 {"module": "MC_RxLazy.tla", "cfg": "C10_pl.cfg", "extra_defs": {"C10_pl.cfg": cfg_l(3, 2, 14 if quick else 18, False)},
                  "must_cover": ["Read", "Tick", "Update"]}]
        pst = pipeline.tlc_prop_stage(props, scratch, 2400)
        gens = []
        for ms in ((6, 9) if quick else (6, 8, 10, 12)):
            n = "C10_ga%d.cfg" % ms
            gens.append({"module": "MC_AsyncRef.tla", "cfg": n, "workers": 8, "extra_defs": {n: cfg_a("KAll", 3, ms, True)}})
        # a coroutine whose result the parameter rejects (the task fails while applying it), then more assignments
        n = "C10_gb.cfg"
        gens.append({"module": "MC_AsyncRef.tla", "cfg": n, "workers": 8, "extra_defs": {n: cfg_a("KBad", 3, 9 if quick else 11, True)}})
        n = "C10_sa.cfg"
        gens.append({"module": "MC_AsyncRef.tla", "cfg": n, "workers": 8, "simulate": 300 if quick else 10000, "depth": 20, "seed": seed,
                     "extra_defs": {n: cfg_a("KAll", 4, 16, True)}})
        rst = pipeline.replay_stage(gens, "asyncref", {}, scratch, 2400)
        gens = []
        for ms in ((6, 9, 12) if quick else (6, 9, 12, 15)):
            n = "C10_gr%d.cfg" % ms
            gens.append({"module": "MC_RxAsync.tla", "cfg": n, "workers": 4, "extra_defs": {n: cfg_r(3 if ms < 12 else 4, ms, True)}})
        rst2 = pipeline.replay_stage(gens, "rxasync", {}, scratch, 2400, name="replay_rx_async")
        # the same pipeline unwatched, with a second reactive input: evaluated only when read
        gens = []
        for ms in ((6, 8) if quick else (6, 8, 10)):
            n = "C10_gl%d.cfg" % ms
            gens.append({"module": "MC_RxLazy.tla", "cfg": n, "workers": 4, "extra_defs": {n: cfg_l(3, 2, ms, True)}})
        n = "C10_sl.cfg"
        gens.append({"module": "MC_RxLazy.tla", "cfg": n, "workers": 8, "simulate": 500 if quick else 20000, "depth": 20, "seed": seed,
                     "extra_defs": {n: cfg_l(4, 3, 16, True)}})
        rst3 = pipeline.replay_stage(gens, "rxlazy", {}, scratch, 2400, name="replay_rx_lazy")
    # behaviours carrying the known-finding tags conform to the specification (which models the
    # deviation and exempts it from LatestWins/NoLateApply via `tainted`); count them as known
    kf = core.KnownFindings(prop)
    return pipeline.finish(prop, tier, seed, t0, [pst, rst, rst2, rst3],
                           rule="non-trivial: at least one task step applied, stored or dropped a result",
                           assumptions=["<=3-4 assignments (coroutine / async generator with two yields / plain value / coroutine whose result is rejected; each behaviour replayed with a fresh function object per assignment and with one shared function object), every interleaving of assignment, completion and single loop steps up to the step bound",
                                        "unwatched pipeline (RxLazy): two reactive inputs, <=2-3 assignments each, <=3-4 evaluations; three expression shapes (extra pipe argument over rx inputs / over Parameter inputs, both inputs in the source operand)",
                                        "replay on a single-step event loop owned by the driver (harness/steploop.py; CPython 3.12 task internals, self-tested)",
                                        "LatestWins / NoLateApply are claimed for behaviours the specification does not mark tainted (task registered only at its own first step: known finding)"])
