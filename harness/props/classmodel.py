"""C12, C13, C14: decided on spec/ClassModel.tla."""
import threading
import time

from harness import core, pipeline

PROPS = ["TypeOK", "InstantiatePrivate", "ObjsListsPrivate"]
TPROPS = ["InstOpsLocal", "NewLocal", "ConstStable", "ReadonlyNever"]
KINDS = {"K12i": {"x": "plain", "m": "mut_inst"}, "K12s": {"x": "plain", "m": "mut_shared"},
         "K12n": {"x": "plain", "n": "noperinst"}, "K13": {"x": "plain"},
         "K14": {"k": "const", "r": "readonly", "x": "plain"}, "K14n": {"k": "const", "z": "constnone"},
         "K12c": {"m": "mut_shared", "z": "constnone"},
         "K12sel0": {"x": "plain", "s": "sel0"}, "K12sel1": {"x": "plain", "s": "sel1"}}
NSEQ = {"K12i": "N12", "K12s": "N12", "K12n": "N12n", "K13": "N13", "K14": "N14", "K14n": "N14n", "K12c": "N12c", "K12sel0": "N12sel", "K12sel1": "N12sel"}
HIER = {"Cl2": ("Mro2", {"A": [], "B": ["A"]}), "Cl3": ("Mro3", {"A": [], "B": ["A"], "C": ["B"]}),
        "ClD": ("MroD", {"A": [], "B": ["A"], "C": ["A"], "D": ["B", "C"]})}


def cfg(classes, kind, acts, maxops, maxinst, hist):
    lines = ["CONSTANTS", " Classes <- %s" % classes, " MroOf <- %s" % HIER[classes][0], " NameSeq <- %s" % NSEQ[kind], " Kind <- %s" % kind,
             ' Extra = "y"', " Acts <- %s" % acts, " MaxOps = %d" % maxops, " MaxInst = %d" % maxinst,
             " RecordHist = %s" % ("TRUE" if hist else "FALSE"), "INIT Init", "NEXT Next", "CHECK_DEADLOCK FALSE"]
    if hist:
        lines.append("INVARIANT Emit")
    else:
        lines += ["INVARIANT " + i for i in PROPS] + ["PROPERTY " + i for i in TPROPS]
    return "\n".join(lines) + "\n"


def run(prop, tier, seed):
    t0 = time.time()
    quick = tier == "quick"
    M = "MC_ClassModel.tla"
    if prop == "C12":
        sets = [("K12i", "A12", "Cl2"), ("K12s", "A12", "Cl2"), ("K12n", "A12", "Cl2"), ("K12c", "A12", "Cl2"),
                ("K12sel0", "A12sel", "Cl2"), ("K12sel1", "A12sel", "Cl2")]
    elif prop == "C13":
        sets = [("K13", "A13", "Cl3"), ("K13", "A13d", "ClD")]
    else:
        sets = [("K14", "A14", "Cl2"), ("K14n", "A14", "Cl2")]
    props, gens = [], []
    for kind, acts, cl in sets:
        tagc = kind + cl
        bases = HIER[cl][1]
        n = "%s_p%s.cfg" % (prop, tagc)
        props.append({"module": M, "cfg": n, "extra_defs": {n: cfg(cl, kind, "AAll", 3 if quick else 4, 2, False)}})
        n = "%s_g%s.cfg" % (prop, tagc)
        gens.append({"module": M, "cfg": n, "workers": 4, "opts": {"kinds": KINDS[kind], "bases": bases},
                     "extra_defs": {n: cfg(cl, kind, acts, (2 if cl == "ClD" or prop == "C12" else 3) if quick else 3, 2, True)}})
        n = "%s_s%s.cfg" % (prop, tagc)
        gens.append({"module": M, "cfg": n, "workers": 8, "simulate": (500 if prop == "C12" else 1000 if prop == "C13" else 250) if quick else 20000, "depth": 14, "seed": seed,
                     "opts": {"kinds": KINDS[kind], "bases": bases, "watch": True},
                     "extra_defs": {n: cfg(cl, kind, acts, 8, 3, True)}})
    with core.Scratch() as scratch:
        box = {}
        th = threading.Thread(target=lambda: box.setdefault("st", pipeline.tlc_prop_stage(props, scratch, 2400)))
        th.start()
        rst = pipeline.replay_stage(gens, "classmodel", {"tolerate": [e["tag"] for e in core.KnownFindings(prop).open]}, scratch, 2400)
        th.join()
    return pipeline.finish(prop, tier, seed, t0, [box["st"], rst],
                           rule="non-trivial: every behaviour (sequences of class-level sets, add_parameter, instance creation, instance sets, Parameter-attribute edits, in-place mutation, namespace reads, edit_constant blocks) -- each step is compared on every class and instance",
                           assumptions=["chain hierarchy A<-B(<-C), <=2-3 instances, parameters: plain Integer, instantiate=True / False list, constant object, readonly, per_instance=False (one configuration at a time)",
                                        "identity of mutable values compared up to renaming; constant flags are not compared while an edit_constant block is open (the property fixes them only after exit)",
                                        "while an edit_constant block is open on one instance, other instances' constant parameters are not assigned (the property does not say)"])
