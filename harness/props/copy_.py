"""C17: decided on spec/Copy.tla."""
import threading
import time

from harness import core, pipeline


def cfg(m, ops, hist):
    return ("CONSTANTS\n Mechs <- %s\n MaxOps = %d\n RecordHist = %s\nINIT Init\nNEXT Next\nCHECK_DEADLOCK FALSE\n%s\n"
            % (m, ops, "TRUE" if hist else "FALSE", "INVARIANT Emit" if hist else "INVARIANT TypeOK\nPROPERTY CopyFaithful\nPROPERTY CopyIndependent"))


def run(prop, tier, seed):
    t0 = time.time()
    quick = tier == "quick"
    M = "MC_Copy.tla"
    tol = [e["tag"] for e in core.KnownFindings(prop).open]
    with core.Scratch() as scratch:
        pst = pipeline.tlc_prop_stage([{"module": M, "cfg": "C17_p.cfg", "extra_defs": {"C17_p.cfg": cfg("MAll", 4 if quick else 5, False)}}], scratch, 1200)
        stages = []
        for slots in (False, True):
            gens = [{"module": M, "cfg": "C17_g.cfg", "workers": 8, "extra_defs": {"C17_g.cfg": cfg("MQuick" if quick else "MAll", 3 if quick else 4, True)}},
                    {"module": M, "cfg": "C17_s.cfg", "workers": 8, "simulate": 200 if quick else 5000, "depth": 12, "seed": seed,
                     "extra_defs": {"C17_s.cfg": cfg("MAll", 8, True)}}]
            stages.append(pipeline.replay_stage(gens, "copy_", {"slots": slots, "tolerate": tol}, scratch, 1200,
                                                name="replay" if not slots else "replay_slots_subclass"))
    return pipeline.finish(prop, tier, seed, t0, [pst] + stages,
                           rule="every behaviour contains a copy preceded and followed by operations on both sides; all are non-trivial",
                           assumptions=["object graph: one parent with an integer parameter, a list parameter, a sub-object parameter (Leaf with x), a per-instance Parameter attribute, an ordinary attribute (in __dict__, and in a subclass's __slots__), methods depending on 'n' and on 'a.x'",
                                        "mechanisms: copy.deepcopy and pickle protocols 0, 2, 5 (quick: deepcopy and protocol 2); user watchers are absent (the property speaks of depends only)",
                                        "attaching a sub-object where none was attached: the property makes no claim about the invocation"])
