"""The common decision procedure of a property check:

  1. TLC, exhaustive, on the property configuration(s) of the module
     (invariants / action properties = the property's clauses on the spec);
  2. TLC generates behaviours of the same module (exhaustive to a depth bound
     over the property's action alphabet, and/or -simulate for long ones);
     every behaviour is replayed on the real code by the module's driver and
     compared step by step;
  3. optional extra stages supplied by the property (trace validation,
     enumerated transition tables ...);
  4. divergences are matched against /verif/known_findings.json, evidence is
     written, the verdict printed.
"""
import collections
import json
import os
import re
import sys
import threading
import time

from harness import core


class Stage:
    """Result of one stage, merged into the evidence."""

    def __init__(self, name):
        self.name = name
        self.info = {}
        self.violations = []     # dicts with at least msg; optional behaviour/step/...
        self.known = []          # (entry_id, example)
        self.machinery = []      # strings


def tlc_prop_stage(specs, scratch, timeout):
    """specs: list of dict(module, cfg, workers?).  Returns (Stage, totals)."""
    st = Stage("tlc_properties")
    tot = {"states": 0, "transitions": 0, "runs": []}
    for sp in specs:
        r = core.run_tlc(sp["module"], sp["cfg"], scratch, workers=sp.get("workers", core.NCPU),
                         timeout=sp.get("timeout", timeout), coverage=True,
                         extra_defs=sp.get("extra_defs"))
        run = {"cfg": sp["cfg"], "distinct_states": r.distinct, "states_generated": r.generated,
               "wall_s": round(r.wall, 1), "ok": r.ok, "timed_out": r.timed_out, "depth": r.depth,
               "actions_never_taken": sorted(a for a, (d, t) in r.coverage.items() if t == 0),
               "action_counts": {a: t for a, (d, t) in sorted(r.coverage.items())}}
        tot["states"] += r.distinct
        tot["transitions"] += r.generated
        tot["runs"].append(run)
        if r.timed_out:
            run["truncated"] = True
        elif not r.ok:
            if r.error and "Invariant" in r.error or (r.error and "violated" in r.error):
                st.violations.append({"kind": "spec_invariant", "msg": "%s on %s" % (r.error, sp["cfg"]),
                                      "tlc_trace": r.errtext[:20000], "tags": []})
            else:
                st.machinery.append("TLC failed on %s: %s\n%s" % (sp["cfg"], r.error, r.errtext[:3000]))
        must = sp.get("must_cover", [])
        for a in must:
            if r.ok and not r.timed_out and r.coverage.get(a, (0, 0))[1] == 0:
                st.machinery.append("vacuity: action %s never taken in %s" % (a, sp["cfg"]))
    st.info = tot
    return st


def replay_stage(gens, driver, opts, scratch, timeout, nproc=core.NCPU, name="replay", chunk=200):
    """gens: list of dict(module, cfg, simulate=None|num, depth, seed, workers, opts?)."""
    st = Stage(name)
    info = {"generators": []}
    allstats = []
    for g in gens:
        o = dict(opts)
        o.update(g.get("opts", {}))
        rp = core.Replayer(driver, o, nproc=nproc, chunk=chunk)
        r = core.run_tlc(g["module"], g["cfg"], scratch, workers=g.get("workers", 4),
                         simulate=g.get("simulate"), depth=g.get("depth"), seed=g.get("seed", 0),
                         timeout=g.get("timeout", timeout), on_line=rp.feed, extra_defs=g.get("extra_defs"))
        s = rp.finish()
        gi = {"cfg": g["cfg"], "mode": "simulate" if g.get("simulate") else "exhaustive",
              "behaviours_emitted": r.behaviours, "distinct_replayed": s.n, "conform": s.ok,
              "nontrivial": s.nontrivial, "tlc_states": r.generated, "wall_s": round(r.wall, 1),
              "truncated": bool(r.timed_out)}
        if g.get("simulate"):
            gi["num"], gi["depth"], gi["seed"] = g["simulate"], g.get("depth"), g.get("seed", 0)
        info["generators"].append(gi)
        if not r.ok and not r.timed_out:
            st.machinery.append("TLC failed while generating from %s: %s\n%s" % (g["cfg"], r.error, r.errtext[:3000]))
        for e in s.errors:
            st.machinery.append("driver error: " + e["msg"])
        allstats.append(s)
        st.violations.extend(s.violations)
    info["replayed"] = sum(s.n for s in allstats)
    info["conform"] = sum(s.ok for s in allstats)
    info["nontrivial"] = sum(s.nontrivial for s in allstats)
    info["samples"] = [x for s in allstats for x in s.samples][:3]
    info["kf_hits"] = dict(sum((collections.Counter(s.kf_hits) for s in allstats), collections.Counter()))
    st.info = info
    return st


def finish(prop, tier, seed, t0, stages, *, level="model_checking", rule, assumptions, extra_cov=None,
           exhaustive=False):
    """Classify, write evidence, print verdict, return exit code."""
    kf = core.KnownFindings(prop)
    open_by_tag = {e["tag"]: e for e in kf.open}
    machinery, violations = [], []
    for st in stages:
        machinery.extend(st.machinery)
        for v in st.violations:
            e = kf.match(set(v.get("tags", [])), v.get("kind"))
            if e is not None:
                kf.record(e, v)
            else:
                violations.append(v)
        for tag, n in st.info.get("kf_hits", {}).items():
            if tag in open_by_tag:
                kf.hits[open_by_tag[tag]["id"]] += n
            else:
                violations.append({"kind": "tolerated_without_open_finding", "msg": "driver tolerated tag %s which is not an open finding" % tag, "tags": [tag]})
    cov = {}
    for st in stages:
        cov[st.name] = st.info
    tls = [s.info for s in stages if s.name.startswith("tlc_properties")]
    rps = [s.info for s in stages if s.name.startswith("replay")]
    others = [s.info for s in stages if not s.name.startswith("replay") and not s.name.startswith("tlc_properties")]
    coverage = {
        "states": sum(t.get("states", 0) for t in tls), "transitions": sum(t.get("transitions", 0) for t in tls),
        "traces_validated_against_impl": sum(r.get("replayed", 0) for r in rps) + sum(o.get("traces_validated", 0) for o in others),
        "evaluations": sum(r.get("replayed", 0) for r in rps) + sum(o.get("evaluations", 0) for o in others),
        "distinct_nontrivial": sum(r.get("nontrivial", 0) for r in rps) + sum(o.get("nontrivial", 0) for o in others),
        "rule": rule,
        "samples": ([x for r in rps for x in (r.get("samples") or [])] + [x for o in others for x in o.get("samples", [])])[:4],
        "exhaustive": bool(exhaustive),
        "known_findings_hit": dict(kf.hits),
        "stages": cov,
    }
    if not coverage["samples"]:
        coverage["samples"] = ["(no conforming behaviour sampled)"]
    if extra_cov:
        coverage.update(extra_cov)
    wall = time.time() - t0
    core.write_evidence(prop, tier, seed, level, coverage, wall, len(violations), assumptions)
    for line in kf.report_lines(prop):
        print(line)
    if machinery:
        for m in machinery[:5]:
            print("MACHINERY-FAILURE: " + m[:3000])
        return 2
    if violations:
        sig = collections.OrderedDict()
        for v in violations:
            k = (v.get("kind"), re.sub(r"\d+", "N", v.get("msg", ""))[:100])
            sig.setdefault(k, []).append(v)
        shown = 0
        for k, vs in sig.items():
            v = min(vs, key=lambda x: len(json.dumps(x.get("behaviour", ""), default=str)))
            path = core.write_replay(prop, {"property": prop, "kind": v.get("kind"), "msg": v.get("msg"),
                                            "step": v.get("step"), "expected": v.get("expected"),
                                            "observed": v.get("observed"), "tags": v.get("tags"),
                                            "behaviour": v.get("behaviour"), "tlc_trace": v.get("tlc_trace"),
                                            "driver": v.get("driver"), "opts": v.get("opts"),
                                            "count_same_signature": len(vs)})
            print("VIOLATION property=%s replay=%s" % (prop, path))
            print("  %s (%d behaviour(s)): %s" % (k[0], len(vs), v.get("msg", "")[:400]))
            shown += 1
            if shown >= 8:
                break
        print("%s: %d violation(s) in %d signature(s)" % (prop, len(violations), len(sig)))
        return 1
    print("%s OK tier=%s states=%d replayed=%d nontrivial=%d known=%d wall=%.0fs"
          % (prop, tier, coverage["states"], coverage["traces_validated_against_impl"],
             coverage["distinct_nontrivial"], sum(kf.hits.values()), wall))
    return 0
