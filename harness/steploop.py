"""A single-step asyncio event loop owned by the replay driver: tick() runs exactly one task
step or wake-up (== one `Tick` of the specification); housekeeping handles (done-callbacks such
as async_executor's _running_tasks.discard) run eagerly.  CPython-3.12 specific in how task
handles are recognised; selftest() fails the check with exit 2 rather than a violation."""
import asyncio
import collections


class StepLoop(asyncio.AbstractEventLoop):
    def __init__(self):
        self._q = collections.deque()
        self.errors = []

    def get_debug(self):
        return False

    def is_running(self):
        return True          # so that param's async_executor takes its ensure_future branch

    def is_closed(self):
        return False

    def time(self):
        return 0.0

    def create_future(self):
        return asyncio.Future(loop=self)

    def create_task(self, coro, *, name=None, context=None):
        return asyncio.Task(coro, loop=self, name=name, context=context)

    def call_soon(self, cb, *args, context=None):
        h = asyncio.Handle(cb, args, self, context)
        self._q.append(h)
        return h

    def call_exception_handler(self, ctx):
        self.errors.append(ctx)

    @staticmethod
    def _is_task_handle(h):
        cb = h._callback
        return "Task" in type(cb).__name__ or isinstance(getattr(cb, "__self__", None), asyncio.Task)

    def housekeeping(self):
        while self._q and not self._is_task_handle(self._q[0]):
            self._q.popleft()._run()

    def tick(self):
        self.housekeeping()
        if not self._q:
            return False
        self._q.popleft()._run()
        self.housekeeping()
        return True

    def pending_task_handles(self):
        self.housekeeping()
        return len(self._q)


def selftest():
    """One coroutine awaiting one future must need exactly: first step, (resolve), wake-up."""
    loop = StepLoop()
    asyncio._set_running_loop(loop)
    try:
        f = loop.create_future()
        out = []

        async def co():
            out.append(await f)
        task = asyncio.ensure_future(co())
        task.add_done_callback(lambda t: None)
        assert loop.pending_task_handles() == 1
        assert loop.tick() and not out and not loop.tick()
        f.set_result(7)
        assert loop.tick() and out == [7] and task.done() and not loop.tick()
    finally:
        asyncio._set_running_loop(None)
    return True
