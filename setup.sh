#!/bin/bash
# Run once after a fresh restore, offline: nothing to compile; parse every TLA+ module and check the tools are there.
set -e
cd "$(dirname "$0")"
command -v java >/dev/null
test -f /opt/veriftools/tla/tla2tools.jar
test -x /venv/bin/python
cd spec
for f in MC_*.tla; do
  out=$(java -cp /opt/veriftools/tla/tla2tools.jar:/opt/veriftools/tla/CommunityModules-deps.jar tla2sany.SANY "$f" 2>&1) || { echo "$out" | tail -20; echo "SANY failed on $f"; exit 1; }
  if echo "$out" | grep -q "Semantic errors\|Parse Error\|Fatal errors"; then echo "$out" | tail -20; echo "SANY failed on $f"; exit 1; fi
done
rm -rf /tmp/tlc-* 2>/dev/null || true
echo "setup ok: $(ls *.tla | wc -l) TLA+ modules parsed"
