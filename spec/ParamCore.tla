---------------------------- MODULE ParamCore ----------------------------
(***************************************************************************
 The event dispatcher of one param "dispatch owner" (a Parameterized
 instance, or a class): parameter values, value watchers, immediate and
 batched dispatch, the batching / discarding / update contexts, trigger(),
 self-resetting Event parameters, and faults (rejected values, callbacks
 that raise, context bodies that raise).

 The module states the INTENDED behaviour -- what properties C02 (plain
 values), C03, C04 and C05 of /verif/properties.jsonl demand -- but is
 structured like param/parameterized.py so that it can be bound to it:

   variable            implementation
   val[p]              obj._param__private.values[p]
   bw, trig            parameters_state['BATCH_WATCH'], ['TRIGGER']
   evq, wq             parameters_state['events'], ['watchers']
   W                   obj._param__private.watchers (registration order)
   emode[p]            Event._mode of an Event parameter: "sr" (set-reset) | "s" (set)
   stack               the Python call stack, abstracted to frames:
     set      Parameter.__set__  loop over sorted(watchers)      (1625-1628)
     flush    Parameters._batch_call_watchers                      (2802-2820)
     cb       a watcher's callback running user code inside
              _batch_call_watchers(enable=queued, run=False)       (2799, 2819)
     update   Parameters._update                                   (2553-2590)
     trigger  Parameters.trigger                                   (2745-2755)
     ctx      body of `with batch_call_watchers / discard_events /
              param.update(...)` running user code
     after    a `finally:` clause that ran a flush and must re-raise or report

 User actions are enabled exactly when user code is running (empty stack or
 top frame cb / ctx), so callbacks and context bodies are arbitrary
 nondeterministic programs.  Internal Step* actions are deterministic.

 Where the property is silent but the code must do something observable
 (events still queued when a dispatch is aborted by an exception) the module
 has a calibrated constant OnAbort; the invariants are checked for both.
 ***************************************************************************)
EXTENDS Naturals, Integers, Sequences, FiniteSets, TLC, Json

CONSTANTS Params,      \* sequence of parameter names (declaration order)
          Kind,        \* Kind[p] \in {"any", "int", "event", "slot"}
          Dom,         \* Dom[p]  : set of value tokens user code may assign (includes Bad for "int")
          Bad,         \* token rejected by validation
          WCfgs,       \* set of watcher configurations [ps, oc, q, prec] user code may register
          InitWs,      \* set of sequences of configurations registered before the behaviour starts
          Acts,        \* alphabet: which user actions are enabled
          MaxW, MaxOps, MaxStack, MaxFaults,
          RecordHist,  \* TRUE: carry the visible history (behaviour generation)
          OnAbort      \* "drop" | "flush"   (calibrated, see header)

VARIABLES val, bw, trig, evq, wq, W, emode, stack, exc, nops, nfaults, hist
vars == <<val, bw, trig, evq, wq, W, emode, stack, exc, nops, nfaults, hist>>

PSet == {Params[i] : i \in 1..Len(Params)}

(* ---- value tokens and param's notion of "changed" (Comparator.is_equal) ----
   0,1 ints; 2 = True (== 1); 3 = NaN (never equal, not even to itself);
   4 = a fresh list [0, [1]] each time it is assigned (equal, container of
   basics -> must be skipped); 5 = 1.0 (== 1).  All of these are "basic"
   values in the sense of C03, so equality decides skipping. *)
Key(v) == IF v \in {2, 5} THEN 1 ELSE v
SameVal(a, b) == a # 3 /\ b # 3 /\ Key(a) = Key(b)

WIds == 1..Len(W)
Alive(w) == W[w].alive
Watches(w, p) == \E i \in 1..Len(W[w].ps) : W[w].ps[i] = p
Precs == {0, 1, 2}

RECURSIVE SortByPrec(_, _)
SortByPrec(s, precs) ==
  IF precs = {} THEN <<>>
  ELSE LET m == CHOOSE x \in precs : \A y \in precs : x <= y
       IN SelectSeq(s, LAMBDA w : W[w].prec = m) \o SortByPrec(s, precs \ {m})

RegSeq(p) == SelectSeq([i \in WIds |-> i], LAMBDA w : Alive(w) /\ Watches(w, p))
InSeq(x, s) == \E i \in 1..Len(s) : s[i] = x
Top == stack[Len(stack)]
Pop == SubSeq(stack, 1, Len(stack) - 1)
IsUser(f) == IF f.k = "cb" THEN TRUE ELSE IF f.k = "ctx" THEN f.entered ELSE FALSE
UserPoint == ~exc /\ (IF stack = <<>> THEN TRUE ELSE IsUser(Top))
CanOp == UserPoint /\ nops < MaxOps /\ Len(stack) < MaxStack

\* ---- visible history -----------------------------------------------------
Obs(v) == [val |-> v]
Vis(rec) == hist' = IF RecordHist THEN Append(hist, rec) ELSE hist
NoVis == UNCHANGED hist

InitVal(p) == 0

Init == /\ val = [p \in PSet |-> InitVal(p)] /\ bw = FALSE /\ trig = FALSE
        /\ evq = <<>> /\ wq = <<>> /\ stack = <<>> /\ exc = FALSE
        /\ nops = 0 /\ nfaults = 0 /\ emode = [p \in PSet |-> "sr"]
        /\ \E ws \in InitWs :
              /\ W = [i \in 1..Len(ws) |-> ws[i] @@ [alive |-> TRUE]]
              /\ hist = IF RecordHist THEN <<[a |-> "init", ws |-> ws, kf |-> {}]>> ELSE <<>>

\* ---- helpers over the stack ------------------------------------------------
OpenCtx == \E i \in 1..Len(stack) : stack[i].k = "ctx" /\ stack[i].kind \in {"batch", "discard"}
InCb == \E i \in 1..Len(stack) : stack[i].k = "cb"
Busy(w) ==  \* w is queued, pending in a dispatch loop, or running
  \/ InSeq(w, wq)
  \/ \E i \in 1..Len(stack) :
        \/ stack[i].k \in {"set", "flush"} /\ InSeq(w, stack[i].pend)
        \/ stack[i].k = "cb" /\ stack[i].w = w

\* Event._mode bookkeeping of param.update
ModeSet(evs) == [p \in PSet |-> IF p \in evs THEN "s" ELSE emode[p]]
ModeReset(evs) == [p \in PSet |-> IF p \in evs THEN "sr" ELSE emode[p]]

\* ---- user actions -------------------------------------------------------------
Watch(cfg) ==
  /\ "watch" \in Acts /\ CanOp /\ Cardinality({w \in WIds : Alive(w)}) < MaxW /\ Len(W) < MaxW + 1
  /\ W' = Append(W, cfg @@ [alive |-> TRUE]) /\ nops' = nops + 1
  /\ Vis([a |-> "watch", cfg |-> cfg, w |-> Len(W) + 1, kf |-> {}])
  /\ UNCHANGED <<val, bw, trig, evq, wq, emode, stack, exc, nfaults>>

Unwatch(w) ==
  /\ "unwatch" \in Acts /\ CanOp /\ w \in WIds /\ Alive(w)      \* (also from inside its own callback)
  \* (the very watcher handed out by watch(), also when another one has identical settings and callable)
  /\ W' = [W EXCEPT ![w].alive = FALSE] /\ nops' = nops + 1
  /\ Vis([a |-> "unwatch", w |-> w, kf |-> {}])
  /\ UNCHANGED <<val, bw, trig, evq, wq, emode, stack, exc, nfaults>>

\* frame for the dispatch loop of one assignment.  reset: an Event parameter
\* in 'set-reset' mode goes back to False when its __set__ completes.
\* op: the number of the user operation this assignment belongs to; queued events carry it, so that an aborted
\* dispatch can drop exactly what it (and the operations nested in it) queued and leave older events alone
SetFrame(p, v, ret, reset, op) ==
  [k |-> "set", p |-> p, old |-> val[p], new |-> v, pend |-> SortByPrec(RegSeq(p), Precs),
   ret |-> ret, reset |-> reset, dl |-> <<>>, op |-> op,
   \* Parameter.__set__ returns early when the parameter has no watcher at all; a Parameter attribute ("slot") keeps its
   \* watcher table entry once it was ever watched, so its assignments go through the dispatcher (and flush queued
   \* events) even after every watcher was removed.  The property is silent on *when* a deferred event is delivered:
   \* the specification follows the implementation here so that the replay is deterministic.
   hasw |-> IF Kind[p] = "slot" THEN (\E w \in WIds : Watches(w, p)) ELSE RegSeq(p) # <<>>]

Set(p, v) ==
  /\ "set" \in Acts /\ CanOp /\ nops' = nops + 1
  /\ IF v = Bad
     THEN /\ nfaults < MaxFaults /\ nfaults' = nfaults + 1
          /\ Vis([a |-> "set", p |-> p, v |-> v, res |-> "rejected", obs |-> Obs(val), kf |-> {}])
          /\ UNCHANGED <<val, bw, trig, evq, wq, W, emode, stack, exc>>
     ELSE /\ val' = [val EXCEPT ![p] = v]
          /\ stack' = Append(stack, SetFrame(p, v, TRUE, Kind[p] = "event", nops + 1))
          /\ Vis([a |-> "set", p |-> p, v |-> v, res |-> "begin", kf |-> {}])
          /\ UNCHANGED <<bw, trig, evq, wq, W, emode, exc, nfaults>>

HasBad(items) == \E i \in 1..Len(items) : items[i][2] = Bad
EventsIn(items) == {items[i][1] : i \in {j \in 1..Len(items) : Kind[items[j][1]] = "event"}}

\* param.update(items) as a call.  quiet: part of trigger(); rest: it is the
\* restoring update of an `with param.update(...)` block
UpdateFrame(items, quiet) ==
  [k |-> "update", items |-> items, saved |-> bw, fin |-> FALSE, quiet |-> quiet,
   evs |-> EventsIn(items)]

Update(items) ==
  /\ "update" \in Acts /\ CanOp /\ nops' = nops + 1
  /\ (HasBad(items) => nfaults < MaxFaults)
  /\ nfaults' = IF HasBad(items) THEN nfaults + 1 ELSE nfaults
  /\ stack' = Append(stack, UpdateFrame(items, FALSE))
  /\ bw' = TRUE
  /\ Vis([a |-> "update", items |-> items, res |-> "begin",
          kf |-> IF HasBad(items) THEN {"KF_UpdateRejects"} ELSE {}])
  /\ emode' = ModeSet(EventsIn(items))
  /\ UNCHANGED <<val, trig, evq, wq, W, exc>>

\* `with obj.param.update(items):` -- the update is performed by the call, the
\* body then runs as user code, the exit performs update(previous values).
EnterUpdateCtx(items) ==
  /\ "updatectx" \in Acts /\ CanOp /\ nops' = nops + 1 /\ ~HasBad(items)
  /\ \A i \in 1..Len(items) : Kind[items[i][1]] # "event"
  /\ stack' = Append(Append(stack,
        [k |-> "ctx", kind |-> "updatectx", saved |-> bw, sevq |-> <<>>, swq |-> <<>>,
         restore |-> [i \in 1..Len(items) |-> <<items[i][1], val[items[i][1]]>>], entered |-> FALSE]),
        UpdateFrame(items, TRUE))
  /\ bw' = TRUE
  /\ Vis([a |-> "enter", kind |-> "updatectx", items |-> items, kf |-> {}])
  /\ UNCHANGED <<val, trig, evq, wq, W, emode, exc, nfaults>>

Trigger(ps) ==   \* ps: sequence of parameter names
  /\ "trigger" \in Acts /\ CanOp /\ nops' = nops + 1
  /\ stack' = Append(Append(stack, [k |-> "trigger", pevq |-> evq, pwq |-> wq]),
                     UpdateFrame([i \in 1..Len(ps) |-> <<ps[i], IF Kind[ps[i]] = "event" THEN 1 ELSE val[ps[i]]>>], TRUE))
  /\ evq' = <<>> /\ wq' = <<>> /\ trig' = TRUE /\ bw' = TRUE
  /\ Vis([a |-> "trigger", ps |-> ps, res |-> "begin",
          kf |-> IF bw THEN {"KF_TriggerWhileBatching"} ELSE {}])
  /\ emode' = ModeSet({ps[i] : i \in {j \in 1..Len(ps) : Kind[ps[j]] = "event"}})
  /\ UNCHANGED <<val, W, exc, nfaults>>

EnterCtx(kind) ==
  /\ kind \in Acts /\ CanOp /\ nops' = nops + 1
  /\ stack' = Append(stack, [k |-> "ctx", kind |-> kind, saved |-> bw, sevq |-> evq, swq |-> wq,
                             restore |-> <<>>, entered |-> TRUE])
  /\ bw' = TRUE
  /\ Vis([a |-> "enter", kind |-> kind, kf |-> {}])
  /\ UNCHANGED <<val, trig, evq, wq, W, emode, exc, nfaults>>

FlushFrame == [k |-> "flush", pend |-> <<>>, evd |-> <<>>, dl |-> <<>>]
AfterFrame(reraise, what) == [k |-> "after", reraise |-> reraise, what |-> what, evs |-> {}]

ExitCtx(raising) ==
  /\ UserPoint /\ stack # <<>> /\ Top.k = "ctx"
  /\ (raising => "raisebody" \in Acts /\ nfaults < MaxFaults)
  /\ nfaults' = IF raising THEN nfaults + 1 ELSE nfaults
  /\ CASE Top.kind = "discard" ->
            /\ bw' = Top.saved /\ evq' = Top.sevq /\ wq' = Top.swq
            /\ stack' = Pop /\ exc' = raising
       [] Top.kind = "batch" ->
            /\ bw' = Top.saved /\ UNCHANGED <<evq, wq>>
            /\ IF Top.saved
               THEN stack' = Pop /\ exc' = raising
               ELSE /\ stack' = Append(Append(Pop, AfterFrame(raising, "exit")), FlushFrame)
                    /\ exc' = FALSE
       [] Top.kind = "updatectx" ->
            \* _ParametersRestorer.__exit__: _update(restore), then the exception (if any) continues
            /\ bw' = TRUE /\ UNCHANGED <<evq, wq>>
            /\ stack' = Append(Append(Pop, AfterFrame(raising, "exit")), UpdateFrame(Top.restore, TRUE))
            /\ exc' = FALSE
  /\ Vis([a |-> "exit", raising |-> raising, kf |-> {}])
  /\ UNCHANGED <<val, trig, W, emode, nops>>

Return == /\ UserPoint /\ stack # <<>> /\ Top.k = "cb"
          /\ bw' = Top.saved /\ stack' = Pop
          /\ Vis([a |-> "ret", kf |-> {}])
          /\ UNCHANGED <<val, trig, evq, wq, W, emode, nops, exc, nfaults>>

Raise == /\ "raise" \in Acts /\ UserPoint /\ stack # <<>> /\ Top.k = "cb" /\ nfaults < MaxFaults
         /\ bw' = Top.saved /\ stack' = Pop /\ exc' = TRUE /\ nfaults' = nfaults + 1
         /\ Vis([a |-> "raise", kf |-> {"KF_CallbackRaises"}])
         /\ UNCHANGED <<val, trig, evq, wq, W, emode, nops>>

\* ---- internal steps ---------------------------------------------------------------
Qualifies(w, old, new) == trig \/ ~W[w].oc \/ ~SameVal(old, new)
EvType(w, trg) == IF trg THEN "triggered" ELSE IF W[w].oc THEN "changed" ELSE "set"

Done(what, v) == Vis([a |-> "done", what |-> what, obs |-> Obs(v), kf |-> {}])

\* the value an Event parameter shows once its __set__ is over
AfterSet(f) == IF f.reset /\ emode[f.p] = "sr" THEN [val EXCEPT ![f.p] = 0] ELSE val

StepSet ==
  /\ ~exc /\ stack # <<>> /\ Top.k = "set"
  /\ LET f == Top IN
     IF f.pend # <<>> THEN
        LET w == Head(f.pend)
            f2 == [f EXCEPT !.pend = Tail(f.pend)]
        IN IF ~Qualifies(w, f.old, f.new)
           THEN /\ stack' = Append(Pop, f2) /\ NoVis
                /\ UNCHANGED <<val, bw, trig, evq, wq, W, emode, nops, exc, nfaults>>
           ELSE IF bw
           THEN /\ evq' = Append(evq, [w |-> w, name |-> f.p, old |-> f.old, new |-> f.new, trg |-> trig, op |-> f.op])
                /\ wq' = IF InSeq(w, wq) THEN wq ELSE Append(wq, w)
                /\ stack' = Append(Pop, f2) /\ NoVis
                /\ UNCHANGED <<val, bw, trig, W, emode, nops, exc, nfaults>>
           ELSE /\ stack' = Append(Append(Pop, [f2 EXCEPT !.dl = Append(f.dl, w)]),
                                   [k |-> "cb", w |-> w, saved |-> bw])
                /\ bw' = W[w].q
                /\ Vis([a |-> "call", w |-> w,
                        evs |-> <<[name |-> f.p, old |-> f.old, new |-> f.new, type |-> EvType(w, trig)]>>,
                        obs |-> Obs(val), kf |-> {}])
                /\ UNCHANGED <<val, trig, evq, wq, W, emode, nops, exc, nfaults>>
     ELSE IF bw \/ evq = <<>> \/ ~f.hasw
          THEN /\ stack' = Pop /\ val' = AfterSet(f)
               /\ (IF f.ret THEN Done("set", AfterSet(f)) ELSE NoVis)
               /\ UNCHANGED <<bw, trig, evq, wq, W, emode, nops, exc, nfaults>>
          ELSE \* events queued by queued callbacks: `if not BATCH_WATCH: _batch_call_watchers()`
               /\ stack' = Append(Append(Pop, [f EXCEPT !.k = "setdone"]), FlushFrame)
               /\ NoVis
               /\ UNCHANGED <<val, bw, trig, evq, wq, W, emode, nops, exc, nfaults>>

StepSetDone ==
  /\ ~exc /\ stack # <<>> /\ Top.k = "setdone"
  /\ stack' = Pop /\ val' = AfterSet(Top)
  /\ (IF Top.ret THEN Done("set", AfterSet(Top)) ELSE NoVis)
  /\ UNCHANGED <<bw, trig, evq, wq, W, emode, nops, exc, nfaults>>

HasEv(w, p, q) == \E i \in 1..Len(q) : q[i].w = w /\ q[i].name = p
AnyEv(p, q) == \E i \in 1..Len(q) : q[i].name = p
LastEv(w, p, q) == LET idx == {i \in 1..Len(q) : q[i].w = w /\ q[i].name = p}
                   IN q[CHOOSE i \in idx : \A j \in idx : j <= i]
\* "carrying the final value": the most recent queued assignment to p, for whichever watcher
LastAny(p, q) == LET idx == {i \in 1..Len(q) : q[i].name = p}
                 IN q[CHOOSE i \in idx : \A j \in idx : j <= i]

StepFlush ==
  /\ ~exc /\ stack # <<>> /\ Top.k = "flush"
  /\ LET f == Top IN
     IF f.pend = <<>> THEN
        IF evq = <<>> THEN /\ stack' = Pop /\ NoVis
                          /\ UNCHANGED <<val, bw, trig, evq, wq, W, emode, nops, exc, nfaults>>
        ELSE /\ stack' = Append(Pop, [f EXCEPT !.pend = SortByPrec(wq, Precs), !.evd = evq, !.dl = <<>>])
             /\ evq' = <<>> /\ wq' = <<>> /\ NoVis
             /\ UNCHANGED <<val, bw, trig, W, emode, nops, exc, nfaults>>
     ELSE LET w == Head(f.pend)
              names == SelectSeq(W[w].ps, LAMBDA p : HasEv(w, p, f.evd))
              evs == [i \in 1..Len(names) |->
                        LET e == LastEv(w, names[i], f.evd) IN
                        [name |-> names[i], old |-> -1, new |-> LastAny(names[i], f.evd).new, type |-> EvType(w, e.trg)]]
              mixed == \E i \in 1..Len(W[w].ps) : ~HasEv(w, W[w].ps[i], f.evd) /\ AnyEv(W[w].ps[i], f.evd)
              trgtype == \E i \in 1..Len(names) : LastEv(w, names[i], f.evd).trg # trig
          IN /\ stack' = Append(Append(Pop, [f EXCEPT !.pend = Tail(f.pend), !.dl = Append(f.dl, w)]),
                                [k |-> "cb", w |-> w, saved |-> bw])
             /\ bw' = (W[w].q \/ bw)
             /\ Vis([a |-> "call", w |-> w, evs |-> evs, obs |-> Obs(val),
                     kf |-> (IF mixed THEN {"KF_MixedQualify"} ELSE {})
                            \cup (IF trgtype THEN {"KF_TriggerTypeInBatch"} ELSE {})])
             /\ UNCHANGED <<val, trig, evq, wq, W, emode, nops, exc, nfaults>>

\* Event parameters named in an update go back to False when it completes
ResetEvents(v, evs) == [p \in PSet |-> IF p \in evs THEN 0 ELSE v[p]]

StepUpdate ==
  /\ ~exc /\ stack # <<>> /\ Top.k = "update"
  /\ LET f == Top IN
     IF f.fin THEN   \* back from the final flush
          /\ stack' = Pop /\ val' = ResetEvents(val, f.evs) /\ emode' = ModeReset(f.evs)
          /\ (IF f.quiet THEN NoVis ELSE Done("update", ResetEvents(val, f.evs)))
          /\ UNCHANGED <<bw, trig, evq, wq, W, nops, exc, nfaults>>
     ELSE IF f.items = <<>> THEN
          /\ bw' = f.saved
          /\ IF f.saved \/ evq = <<>>
             THEN stack' = Append(Pop, [f EXCEPT !.fin = TRUE])
             ELSE stack' = Append(Append(Pop, [f EXCEPT !.fin = TRUE]), FlushFrame)
          /\ NoVis
          /\ UNCHANGED <<val, trig, evq, wq, W, emode, nops, exc, nfaults>>
     ELSE LET p == Head(f.items)[1]
              v == Head(f.items)[2]
              f2 == [f EXCEPT !.items = Tail(f.items)]
          IN IF v = Bad
             THEN \* rejected value: the exception propagates; Unwind applies the update frame's exit rule
                  /\ exc' = TRUE /\ NoVis
                  /\ UNCHANGED <<val, bw, trig, evq, wq, W, emode, stack, nops, nfaults>>
             ELSE /\ val' = [val EXCEPT ![p] = v]
                  /\ stack' = Append(Append(Pop, f2), SetFrame(p, v, FALSE, FALSE, nops))
                  /\ NoVis
                  /\ UNCHANGED <<bw, trig, evq, wq, W, emode, nops, exc, nfaults>>

\* de-duplicating merge of the parked watcher queue
RECURSIVE MergeW(_, _)
MergeW(a, b) == IF b = <<>> THEN a
                ELSE MergeW(IF InSeq(Head(b), a) THEN a ELSE Append(a, Head(b)), Tail(b))

StepTrigger ==
  /\ ~exc /\ stack # <<>> /\ Top.k = "trigger"
  /\ trig' = FALSE
  /\ evq' = evq \o Top.pevq /\ wq' = MergeW(wq, Top.pwq)
  /\ stack' = Pop /\ Done("trigger", val)
  /\ UNCHANGED <<val, bw, W, emode, nops, exc, nfaults>>

\* an `updatectx` frame becomes a user frame once its initial update is done
StepCtxEnter ==
  /\ ~exc /\ stack # <<>> /\ Top.k = "ctx" /\ ~Top.entered
  /\ stack' = Append(Pop, [Top EXCEPT !.entered = TRUE])
  /\ Done("enter", val)
  /\ UNCHANGED <<val, bw, trig, evq, wq, W, emode, nops, exc, nfaults>>

StepAfter ==
  /\ ~exc /\ stack # <<>> /\ Top.k = "after"
  /\ stack' = Pop /\ exc' = Top.reraise
  /\ val' = ResetEvents(val, Top.evs) /\ emode' = ModeReset(Top.evs)
  /\ IF Top.what \in {"set", "exit"} /\ ~Top.reraise THEN Done(Top.what, ResetEvents(val, Top.evs)) ELSE NoVis
  /\ UNCHANGED <<bw, trig, evq, wq, W, nops, nfaults>>

\* exception propagation: pop one frame, applying its exceptional-exit rule
\* (what the code's try/finally does -- or, per C05, ought to do)
Catcher == IF stack = <<>> THEN TRUE ELSE IsUser(Top)

Unwind ==
  /\ exc
  /\ IF Catcher
     THEN /\ exc' = FALSE
          /\ Vis([a |-> "caught", obs |-> Obs(val), kf |-> {}])
          /\ UNCHANGED <<val, bw, trig, evq, wq, W, emode, stack, nops, nfaults>>
     ELSE LET f == Top IN
          CASE f.k \in {"set", "setdone", "flush"} ->
                 \* aborted dispatch: the Event parameter still resets; events queued by
                 \* queued callbacks of this dispatch must not survive as stale events
                 /\ val' = IF f.k = "flush" THEN val ELSE AfterSet(f)
                 /\ IF ~bw /\ evq # <<>>
                    THEN IF OnAbort = "drop"
                         THEN \* (only what this dispatch queued is dropped: an assignment made -- and its failure
                              \*  caught -- by a watcher of an enclosing dispatch leaves that dispatch's queue alone)
                              /\ LET keep == IF f.k = "flush" THEN <<>> ELSE SelectSeq(evq, LAMBDA e : e.op < f.op) IN
                                 /\ evq' = keep
                                 /\ wq' = SelectSeq(wq, LAMBDA w : \E i \in 1..Len(keep) : keep[i].w = w)
                              /\ stack' = Pop /\ NoVis
                              /\ UNCHANGED <<bw, trig, W, emode, nops, exc, nfaults>>
                         ELSE /\ stack' = Append(Append(Pop, AfterFrame(TRUE, "none")), FlushFrame)
                              /\ exc' = FALSE /\ NoVis
                              /\ UNCHANGED <<bw, trig, evq, wq, W, emode, nops, nfaults>>
                    ELSE /\ stack' = Pop /\ NoVis /\ UNCHANGED <<bw, trig, evq, wq, W, emode, nops, exc, nfaults>>
            [] f.k = "update" ->
                 \* finally: restore the flag, announce what was applied, reset Event parameters
                 \* (the flush comes first, the Event reset after it -- as on the normal path)
                 /\ bw' = f.saved
                 /\ IF f.saved \/ evq = <<>> \/ f.fin
                    THEN /\ stack' = Pop /\ UNCHANGED exc
                         /\ val' = ResetEvents(val, f.evs) /\ emode' = ModeReset(f.evs)
                    ELSE /\ stack' = Append(Append(Pop, [AfterFrame(TRUE, "none") EXCEPT !.evs = f.evs]), FlushFrame)
                         /\ exc' = FALSE /\ UNCHANGED <<val, emode>>
                 /\ NoVis /\ UNCHANGED <<trig, evq, wq, W, nops, nfaults>>
            [] f.k = "trigger" ->
                 /\ trig' = FALSE /\ evq' = evq \o f.pevq /\ wq' = MergeW(wq, f.pwq)
                 /\ stack' = Pop /\ NoVis /\ UNCHANGED <<val, bw, W, emode, nops, exc, nfaults>>
            [] f.k = "ctx" ->   \* an updatectx whose initial update failed: nothing was entered
                 /\ stack' = Pop /\ NoVis /\ UNCHANGED <<val, bw, trig, evq, wq, W, emode, nops, exc, nfaults>>
            [] f.k = "after" ->  \* the flush run by a finally clause raised: inner finally still resets Events
                 /\ stack' = Pop /\ NoVis /\ val' = ResetEvents(val, f.evs) /\ emode' = ModeReset(f.evs)
                 /\ UNCHANGED <<bw, trig, evq, wq, W, nops, exc, nfaults>>
            [] OTHER -> /\ stack' = Pop /\ NoVis /\ UNCHANGED <<val, bw, trig, evq, wq, W, emode, nops, exc, nfaults>>

\* ---- next-state relation ----------------------------------------------------------
Seq1(S) == {<<x>> : x \in S}
ItemsOf(p) == {<<p, v>> : v \in Dom[p]}
Items1 == UNION {Seq1(ItemsOf(p)) : p \in PSet}
Items2 == {<<i1, i2>> : i1 \in UNION {ItemsOf(p) : p \in PSet}, i2 \in UNION {ItemsOf(p) : p \in PSet}}
Items == Items1 \cup {it \in Items2 : it[1][1] # it[2][1] /\ it[1][2] # Bad}
Names == Seq1(PSet) \cup {<<p, q>> : p \in PSet, q \in PSet}

\* the item sequences / name sequences user code may pass (override in a cfg to narrow an alphabet)
UpdItems == Items
TrigNames == {n \in Names : Len(n) = 1 \/ n[1] # n[2]}

User ==
  \/ \E cfg \in WCfgs : Watch(cfg)
  \/ \E w \in WIds : Unwatch(w)
  \/ \E p \in PSet : \E v \in Dom[p] : Set(p, v)
  \/ \E it \in UpdItems : Update(it)
  \/ \E it \in {x \in UpdItems : ~HasBad(x)} : EnterUpdateCtx(it)
  \/ \E ps \in TrigNames : Trigger(ps)
  \/ \E kind \in {"batch", "discard"} : EnterCtx(kind)
  \/ ExitCtx(FALSE) \/ ExitCtx(TRUE) \/ Return \/ Raise

Internal == StepSet \/ StepSetDone \/ StepFlush \/ StepUpdate \/ StepTrigger \/ StepCtxEnter \/ StepAfter \/ Unwind

Next == User \/ Internal
Spec == Init /\ [][Next]_vars

\* ---- properties --------------------------------------------------------------------
\* C04: while a batching context of the object is open none of its watchers runs
NoCallUnderCtx ==
  \A i, j \in 1..Len(stack) :
     (i < j /\ stack[i].k = "ctx" /\ stack[i].kind \in {"batch", "discard"}) => stack[j].k # "cb"
\* C04: also while param.update is applying its items (frames above an unfinished update)
NoCallInsideUpdate ==
  \A i, j \in 1..Len(stack) :
     (i < j /\ stack[i].k = "update" /\ ~stack[i].fin /\ stack[i].items # <<>>) => stack[j].k # "cb"
\* C05: whenever control is back at top level the dispatch state is that of a fresh object
QuiescentClean ==
  (stack = <<>> /\ ~exc) =>
     /\ bw = FALSE /\ trig = FALSE /\ evq = <<>> /\ wq = <<>>
     /\ \A p \in PSet : Kind[p] = "event" => val[p] = 0
\* C05: after a caught fault inside an open batch the object is still batching
StillBatched ==
  \A i \in 1..Len(stack) :
     (stack[i].k = "ctx" /\ stack[i].kind \in {"batch", "discard"} /\ UserPoint /\ i = Len(stack)) => bw
\* C04: a watcher is queued at most once
NoDupQueued == \A i, j \in 1..Len(wq) : i # j => wq[i] # wq[j]
\* C03/C04: within one dispatch loop / flush round no watcher is delivered twice
NoDupDelivery ==
  \A i \in 1..Len(stack) :
     stack[i].k \in {"set", "setdone", "flush"} =>
        \A a, b \in 1..Len(stack[i].dl) : a # b => stack[i].dl[a] # stack[i].dl[b]
\* C03: deliveries of one assignment are in (precedence, registration) order
DeliveryOrdered ==
  \A i \in 1..Len(stack) :
     stack[i].k \in {"set", "setdone", "flush"} =>
        \A a, b \in 1..Len(stack[i].dl) :
           a < b => \/ W[stack[i].dl[a]].prec < W[stack[i].dl[b]].prec
                    \/ (W[stack[i].dl[a]].prec = W[stack[i].dl[b]].prec
                        /\ (stack[i].k = "flush" \/ stack[i].dl[a] < stack[i].dl[b]))
\* C03: a queued callback's own assignments are not dispatched while it runs
QueuedDeferred ==
  \A i, j \in 1..Len(stack) :
     (i < j /\ stack[i].k = "cb" /\ W[stack[i].w].q) => stack[j].k # "cb"

TypeOK ==
  /\ bw \in BOOLEAN /\ trig \in BOOLEAN /\ exc \in BOOLEAN
  /\ nops \in 0..MaxOps /\ nfaults \in 0..MaxFaults

Quiescent == stack = <<>> /\ ~exc
Emit == (RecordHist /\ Quiescent /\ nops = MaxOps) => PrintT(<<"BEHAVIOUR", ToJson(hist)>>)
====
