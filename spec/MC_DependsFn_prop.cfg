CONSTANTS
 DepLists <- DL
 RecordHist = FALSE
INIT Init
NEXT Next
CHECK_DEADLOCK FALSE
INVARIANT TypeOK
