CONSTANTS
 Classes <- Cl2
 NameSeq <- N14
 Kind <- K14
 Extra = "y"
 Acts <- AAll
 MaxOps = 4
 MaxInst = 2
 RecordHist = FALSE
INIT Init
NEXT Next
CHECK_DEADLOCK FALSE
INVARIANT TypeOK
INVARIANT InstantiatePrivate
PROPERTY InstOpsLocal
PROPERTY ConstStable
PROPERTY ReadonlyNever
