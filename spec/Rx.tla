--------------------------------- MODULE Rx ---------------------------------
(***************************************************************************
 C09: reactive expressions.

 Inputs: rx roots a, b (small integers), l (a list), and a Parameter p of an
 ordinary Parameterized object.  An expression is a tree
   In(n)                      an input used as pipeline root or as argument
   C(v)                       a constant
   Bin(op, x, y)              x <op> y ; when x is a constant and y is reactive
                              this is the *reflected* form (5 - rx)
   Un(op, x)                  -x, abs(x), x.rx.not_(), x.rx.bool(), x.rx.len()
   Idx(x, i)                  x[i]
   Where(c, x, y)             c.rx.where(x, y)
   And(x, y) / Or(x, y)       x.rx.and_(y) / x.rx.or_(y)
   InL(x, y)                  x.rx.in_(y)
   Pipe(x, y) / PipeKw(x, y)  x.rx.pipe(f, y) / x.rx.pipe(f, v=y)   with f(u, v) = 10 u + v
   Map(x)                     x.rx.map(g)            with g(u) = u + 1
   Count(x, y)                x.count(y)             (a method call through the expression)
   BindF(x, y)                param.rx(param.bind(f, x, y)) -- a bound function as root
 Eval(e, env) is the plain-Python meaning of the tree on the inputs' current
 values (an error value when Python raises: ZeroDivisionError, IndexError).

 The module also carries the abstract cache protocol a lazy implementation
 needs -- per handle a dirty flag and a cached value; an input update marks
 every handle whose tree mentions the input -- and TLC checks its coherence
 (ReadCorrect), i.e. that complete dependency lists are sufficient.

 A behaviour: choose an expression and initial inputs; then updates of inputs
 interleaved with reads of the expression and of its reactive sub-expressions
 (reads populate caches), optionally with a .rx.watch callback on the
 expression.
 ***************************************************************************)
EXTENDS Integers, Sequences, FiniteSets, TLC, Json
CONSTANTS Exprs,        \* catalogue of expression trees
          MaxOps, RecordHist

In(n) == [k |-> "in", n |-> n]
C(v) == [k |-> "c", v |-> v]
Bin(op, x, y) == [k |-> "bin", op |-> op, x |-> x, y |-> y]
Un(op, x) == [k |-> "un", op |-> op, x |-> x]
Idx(x, i) == [k |-> "idx", x |-> x, y |-> i]
Where(c, x, y) == [k |-> "where", c |-> c, x |-> x, y |-> y]
And(x, y) == [k |-> "and", x |-> x, y |-> y]
Or(x, y) == [k |-> "or", x |-> x, y |-> y]
InL(x, y) == [k |-> "inl", x |-> x, y |-> y]
Pipe(x, y) == [k |-> "pipe", x |-> x, y |-> y]
PipeKw(x, y) == [k |-> "pipekw", x |-> x, y |-> y]     \* x.rx.pipe(f, v=y): the reactive argument passed by keyword
Map(x) == [k |-> "map", x |-> x]
IsNone(x, neg) == [k |-> "isnone", x |-> x, neg |-> neg]      \* x.rx.is_(None) / x.rx.is_not(None)
Count(x, y) == [k |-> "count", x |-> x, y |-> y]
BindF(x, y) == [k |-> "bindf", x |-> x, y |-> y]
DCode(x) == [k |-> "dcode", x |-> x]      \* x.rx.pipe(code): a function of the keys and values of a dictionary input

\* ---- values ------------------------------------------------------------------------------
IV(v) == [t |-> "i", v |-> v]
BV(v) == [t |-> "b", v |-> v]
LV(s) == [t |-> "l", items |-> s]
Err(e) == [t |-> "e", e |-> e]
Truth(v) == CASE v.t = "i" -> v.v # 0 [] v.t = "b" -> v.v [] v.t = "l" -> v.items # <<>> [] v.t = "d" -> TRUE
Num(v) == IF v.t = "b" THEN (IF v.v THEN 1 ELSE 0) ELSE v.v
IsNum(v) == v.t \in {"i", "b"}
ListOf(tok) == IF tok = 1 THEN <<1, 2>> ELSE IF tok = 2 THEN <<5>> ELSE <<>>

\* the dictionary input d: token 0 = {'a': 1, 'b': 2}, 1 = {'a': 1, 'c': 5} (same size, one key renamed), 2 = {'a': 1};
\* code(m) = sum of values + 7 if 'c' is a key
DV(tok) == [t |-> "d", tok |-> tok]
DictCode(tok) == CASE tok = 0 -> 3 [] tok = 1 -> 13 [] tok = 2 -> 1
DictLen(tok) == IF tok = 2 THEN 1 ELSE 2
InputVal(n, env) == IF n = "l" THEN LV(ListOf(env[n])) ELSE IF n = "d" THEN DV(env[n]) ELSE IV(env[n])

Arith(op, x, y) ==
  CASE op = "add" -> IV(x + y) [] op = "sub" -> IV(x - y) [] op = "mul" -> IV(x * y)
    [] op = "floordiv" -> IF y = 0 THEN Err("ZeroDivisionError") ELSE IV(x \div y)
    [] op = "mod" -> IF y = 0 THEN Err("ZeroDivisionError") ELSE IV(x % y)
    [] op = "lt" -> BV(x < y) [] op = "le" -> BV(x <= y) [] op = "gt" -> BV(x > y) [] op = "ge" -> BV(x >= y)
    [] op = "eq" -> BV(x = y) [] op = "ne" -> BV(x # y)

RECURSIVE Eval(_, _)
Eval(e, env) ==
  CASE e.k = "in" -> InputVal(e.n, env)
    [] e.k = "c" -> IV(e.v)
    [] e.k = "bin" -> LET x == Eval(e.x, env) y == Eval(e.y, env) IN
                      IF x.t = "e" THEN x ELSE IF y.t = "e" THEN y
                      ELSE IF IsNum(x) /\ IsNum(y) THEN Arith(e.op, Num(x), Num(y)) ELSE Err("TypeError")
    [] e.k = "un" -> LET x == Eval(e.x, env) IN
                     IF x.t = "e" THEN x
                     ELSE (CASE e.op = "neg" -> IF IsNum(x) THEN IV(0 - Num(x)) ELSE Err("TypeError")
                             [] e.op = "abs" -> IF IsNum(x) THEN IV(IF Num(x) < 0 THEN 0 - Num(x) ELSE Num(x)) ELSE Err("TypeError")
                             [] e.op = "not" -> BV(~Truth(x))
                             [] e.op = "bool" -> BV(Truth(x))
                             [] e.op = "len" -> IF x.t = "l" THEN IV(Len(x.items)) ELSE IF x.t = "d" THEN IV(DictLen(x.tok)) ELSE Err("TypeError"))
    [] e.k = "idx" -> LET x == Eval(e.x, env) i == Eval(e.y, env) IN
                      IF x.t = "e" THEN x ELSE IF i.t = "e" THEN i
                      ELSE IF x.t # "l" \/ ~IsNum(i) THEN Err("TypeError")
                      ELSE IF Num(i) >= 0 /\ Num(i) < Len(x.items) THEN IV(x.items[Num(i) + 1])
                      ELSE IF Num(i) < 0 /\ 0 - Num(i) <= Len(x.items) THEN IV(x.items[Len(x.items) + Num(i) + 1])     \* Python counts a negative index from the end
                      ELSE Err("IndexError")
    [] e.k = "where" -> LET c == Eval(e.c, env) IN
                        IF c.t = "e" THEN c ELSE IF Truth(c) THEN Eval(e.x, env) ELSE Eval(e.y, env)
    \* Python's `and` / `or`: the right operand is evaluated only when the left one does not decide
    [] e.k = "and" -> LET x == Eval(e.x, env) IN IF x.t = "e" THEN x ELSE IF Truth(x) THEN Eval(e.y, env) ELSE x
    [] e.k = "or" -> LET x == Eval(e.x, env) IN IF x.t = "e" THEN x ELSE IF Truth(x) THEN x ELSE Eval(e.y, env)
    [] e.k = "inl" -> LET x == Eval(e.x, env) y == Eval(e.y, env) IN
                      IF x.t = "e" THEN x ELSE IF y.t = "e" THEN y
                      ELSE IF y.t # "l" THEN Err("TypeError") ELSE BV(\E i \in 1..Len(y.items) : y.items[i] = Num(x))
    [] e.k \in {"pipe", "pipekw", "bindf"} -> LET x == Eval(e.x, env) y == Eval(e.y, env) IN
                       IF x.t = "e" THEN x ELSE IF y.t = "e" THEN y ELSE IV(10 * Num(x) + Num(y))
    [] e.k = "isnone" -> LET x == Eval(e.x, env) IN IF x.t = "e" THEN x ELSE BV(e.neg)
    [] e.k = "dcode" -> LET x == Eval(e.x, env) IN IF x.t = "e" THEN x ELSE IF x.t = "d" THEN IV(DictCode(x.tok)) ELSE Err("TypeError")
    [] e.k = "map" -> LET x == Eval(e.x, env) IN
                      IF x.t = "e" THEN x ELSE LV([i \in 1..Len(x.items) |-> x.items[i] + 1])
    [] e.k = "count" -> LET x == Eval(e.x, env) y == Eval(e.y, env) IN
                        IF x.t = "e" THEN x ELSE IF y.t = "e" THEN y
                        ELSE IV(Cardinality({i \in 1..Len(x.items) : x.items[i] = Num(y)}))

\* inputs an expression mentions
RECURSIVE Inputs(_)
Inputs(e) ==
  CASE e.k = "in" -> {e.n} [] e.k = "c" -> {}
    [] e.k \in {"un", "map", "isnone", "dcode"} -> Inputs(e.x)
    [] e.k = "where" -> Inputs(e.c) \cup Inputs(e.x) \cup Inputs(e.y)
    [] OTHER -> Inputs(e.x) \cup Inputs(e.y)
\* reactive sub-expressions the harness keeps handles to (the expression itself and its operands)
Subs(e) == {e} \cup (IF e.k \in {"bin", "idx", "and", "or", "inl", "pipe", "pipekw", "count", "bindf"} THEN {x \in {e.x, e.y} : x.k \notin {"in", "c"}}
                     ELSE IF e.k \in {"un", "map", "isnone", "dcode"} THEN {x \in {e.x} : x.k \notin {"in", "c"}}
                     ELSE IF e.k = "where" THEN {x \in {e.c, e.x, e.y} : x.k \notin {"in", "c"}} ELSE {})
\* does the expression use a where result inside a larger expression (a deviation found with this
\* module -- such expressions did not follow the selected branch -- is repaired: known_findings.json)
RECURSIVE HasInnerWhere(_, _)
HasInnerWhere(e, top) ==
  CASE e.k \in {"in", "c"} -> FALSE
    [] e.k = "where" -> ~top \/ HasInnerWhere(e.c, FALSE) \/ HasInnerWhere(e.x, FALSE) \/ HasInnerWhere(e.y, FALSE)
    [] e.k \in {"un", "map", "isnone", "dcode"} -> HasInnerWhere(e.x, FALSE)
    [] OTHER -> HasInnerWhere(e.x, FALSE) \/ HasInnerWhere(e.y, FALSE)

VARIABLES expr, env, dirty, cached, watched, nops, hist
vars == <<expr, env, dirty, cached, watched, nops, hist>>
Names == {"a", "b", "p", "l", "d"}
Dom(n) == IF n = "l" THEN {1, 2} ELSE {0, 1, 2}

Init == /\ expr \in Exprs
        /\ env \in [Names -> {0, 1, 2}] /\ env["l"] \in {1, 2}
        /\ \A n \in Names \ Inputs(expr) : env[n] = 1          \* unused inputs: one value
        /\ ("d" \in Inputs(expr) => env["d"] = 0)
        /\ dirty = [s \in Subs(expr) |-> TRUE] /\ cached = [s \in Subs(expr) |-> IV(0)]
        /\ watched \in BOOLEAN /\ nops = 0 /\ hist = <<>>
        \* expressions are built over inputs for which they have a value (building evaluates)
        /\ Eval(expr, env).t # "e"

Rec(r) == hist' = IF RecordHist
                  THEN Append(IF hist = <<>> THEN <<[a |-> "init", expr |-> expr, env |-> env, watched |-> watched,
                                                      kf |-> {}]>> ELSE hist, r)
                  ELSE hist
Step == nops < MaxOps /\ nops' = nops + 1

Update(n, v) ==
  /\ Step /\ n \in Inputs(expr) /\ v \in Dom(n) /\ v # env[n]
  /\ env' = [env EXCEPT ![n] = v]
  /\ (watched => Eval(expr, env').t # "e")      \* (a watched expression that starts raising: outside the domain)
  /\ dirty' = [s \in Subs(expr) |-> dirty[s] \/ n \in Inputs(s)]
  /\ UNCHANGED <<expr, cached, watched>>
  /\ Rec([a |-> "update", n |-> n, v |-> v,
          notify |-> IF watched /\ Eval(expr, env') # Eval(expr, env) THEN <<Eval(expr, env')>> ELSE <<>>,
          kf |-> {}])
Read(s) ==
  /\ Step /\ s \in Subs(expr)
  /\ cached' = [cached EXCEPT ![s] = IF dirty[s] THEN Eval(s, env) ELSE cached[s]]
  /\ dirty' = [dirty EXCEPT ![s] = FALSE]
  /\ UNCHANGED <<expr, env, watched>>
  /\ Rec([a |-> "read", sub |-> s, top |-> s = expr, val |-> cached'[s],
          kf |-> {}])
\* a new expression is built on top of an existing handle *now* -- after whatever was read and updated so
\* far -- and read at once: it must start from the handle's current value, not from what the handle last cached
Derive(s) ==
  /\ Step /\ s \in Subs(expr) /\ s.k \notin {"in", "c"}
  /\ Eval(s, env).t \in {"i", "b"}
  /\ UNCHANGED <<expr, env, dirty, cached, watched>>
  /\ Rec([a |-> "derive", sub |-> s, val |-> Eval(Bin("add", s, C(1)), env), kf |-> {}])
Next == (\E n \in Names, v \in 0..2 : Update(n, v)) \/ (\E s \in Subs(expr) : Read(s) \/ Derive(s))
Spec == Init /\ [][Next]_vars

\* the cache protocol is coherent: a clean handle holds the plain-Python value of its tree
ReadCorrect == \A s \in Subs(expr) : ~dirty[s] => cached[s] = Eval(s, env)
TypeOK == nops \in 0..MaxOps
Emit == (RecordHist /\ nops = MaxOps) => PrintT(<<"BEHAVIOUR", ToJson([steps |-> hist])>>)
=============================================================================
