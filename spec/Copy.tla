-------------------------------- MODULE Copy --------------------------------
(***************************************************************************
 C17: copy.deepcopy / pickle round trip of a Parameterized instance.

 One object "orig" with
   n      an integer parameter, watched by the method k  (depends('n', watch=True))
   l      a list parameter (a mutable cell: identity + content)
   a      a sub-object parameter holding a Leaf (or nothing); Leaf has an integer x,
          watched by the method m (depends('a.x', watch=True))
   pb     a per-instance Parameter attribute (bounds of n), watched by the method b
          (depends('n:bounds', watch=True))
   attr   an ordinary Python attribute
 A history of operations is applied, then Copy(mechanism) creates "copy", then
 histories are applied to either side.  The intended copy is an isomorphic
 clone of the reachable object graph: equal values, its own list cell and its
 own Leaf, method watchers bound to the clone.

 Every step records which (side, method) invocations must happen and the full
 state of both sides, so faithfulness (at the copy step) and independence
 (at every later step) are compared directly.
 ***************************************************************************)
EXTENDS Integers, Sequences, FiniteSets, TLC, Json
CONSTANTS Mechs, MaxOps, RecordHist
VARIABLES st, copied, nops, hist
vars == <<st, copied, nops, hist>>

Sides == IF copied THEN {"orig", "copy"} ELSE {"orig"}
Obj0 == [n |-> 0, l |-> 0, leaf |-> TRUE, x |-> 0, pb |-> 0, attr |-> 0, pd |-> 0, po |-> 0]     \* pd: per-instance `default` attribute of an unwatched parameter u
Init == /\ st \in {[orig |-> [Obj0 EXCEPT !.leaf = lf], copy |-> Obj0] : lf \in BOOLEAN}
        /\ copied = FALSE /\ nops = 0 /\ hist = <<>>
Rec(name, args, calls, s2) ==
  hist' = IF RecordHist
          THEN Append(IF hist = <<>> THEN <<[act |-> [name |-> "init"], calls |-> {}, st |-> st]>> ELSE hist,
                      [act |-> [name |-> name] @@ args, calls |-> calls, st |-> s2])
          ELSE hist
Step == nops < MaxOps /\ nops' = nops + 1

\* (route: attribute assignment or param.update)
SetN(sd, v, route) == /\ Step /\ sd \in Sides /\ st' = [st EXCEPT ![sd].n = v] /\ UNCHANGED copied
               /\ Rec("setn", [side |-> sd, v |-> v, route |-> route], IF st[sd].n # v THEN {<<sd, "k">>} ELSE {}, st')
\* the per-instance objects of a non-checking Selector are replaced by a list that lacks the declared default
SetPO(sd) == /\ Step /\ sd \in Sides /\ st[sd].po = 0 /\ st' = [st EXCEPT ![sd].po = 1] /\ UNCHANGED copied
             /\ Rec("setpo", [side |-> sd], {}, st')
\* `obj.param.u.default = d`: a per-instance Parameter attribute of a parameter nobody watches
SetPD(sd, d) == /\ Step /\ sd \in Sides /\ st' = [st EXCEPT ![sd].pd = d] /\ UNCHANGED copied
                /\ Rec("setpd", [side |-> sd, d |-> d], {}, st')
SetX(sd, v) == /\ Step /\ sd \in Sides /\ st[sd].leaf /\ st' = [st EXCEPT ![sd].x = v] /\ UNCHANGED copied
               /\ Rec("setx", [side |-> sd, v |-> v], IF st[sd].x # v THEN {<<sd, "m">>} ELSE {}, st')
\* attach a fresh Leaf with x = v (replacing the current one, if any)
Attach(sd, v) == /\ Step /\ sd \in Sides /\ st' = [st EXCEPT ![sd].leaf = TRUE, ![sd].x = v] /\ UNCHANGED copied
                 /\ Rec("attach", [side |-> sd, v |-> v],
                        IF st[sd].leaf /\ st[sd].x # v THEN {<<sd, "m">>} ELSE IF st[sd].leaf THEN {} ELSE {<<sd, "free">>}, st')
Mutate(sd) == /\ Step /\ sd \in Sides /\ st' = [st EXCEPT ![sd].l = @ + 1] /\ UNCHANGED copied
              /\ Rec("mutate", [side |-> sd], {}, st')
SetPB(sd, b) == /\ Step /\ sd \in Sides /\ st' = [st EXCEPT ![sd].pb = b] /\ UNCHANGED copied
                /\ Rec("setpb", [side |-> sd, b |-> b], IF st[sd].pb # b THEN {<<sd, "b">>} ELSE {}, st')
SetAttr(sd, v) == /\ Step /\ sd \in Sides /\ st' = [st EXCEPT ![sd].attr = v] /\ UNCHANGED copied
                  /\ Rec("setattr", [side |-> sd, v |-> v], {}, st')
DoCopy(mech) == /\ Step /\ ~copied /\ copied' = TRUE /\ st' = [st EXCEPT !.copy = st.orig]
                /\ Rec("copy", [mech |-> mech], {}, st')

Next == \/ \E sd \in {"orig", "copy"} : \/ \E v \in {0, 1} : SetN(sd, v, "attr") \/ SetN(sd, v, "update") \/ SetPD(sd, v + 1) \/ SetX(sd, v) \/ Attach(sd, v) \/ SetAttr(sd, v)
                                       \/ Mutate(sd) \/ SetPO(sd) \/ \E b \in {1, 2} : SetPB(sd, b)
        \/ \E mech \in Mechs : DoCopy(mech)
Spec == Init /\ [][Next]_vars

\* C17 on the specification
CopyFaithful == [][(~copied /\ copied') => st'.copy = st.orig /\ st'.orig = st.orig]_vars
CopyIndependent ==
  [][(copied /\ copied') => (st'.orig = st.orig \/ st'.copy = st.copy)]_vars
TypeOK == nops \in 0..MaxOps
Emit == (RecordHist /\ nops = MaxOps /\ copied) => PrintT(<<"BEHAVIOUR", ToJson([steps |-> hist])>>)
=============================================================================
