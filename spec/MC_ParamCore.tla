---- MODULE MC_ParamCore ----
EXTENDS ParamCore
\* watcher configurations used by the model-checking / generation configs
WC3 == { [ps |-> <<"a","b">>, oc |-> TRUE,  q |-> FALSE, prec |-> 0],
         [ps |-> <<"a">>,     oc |-> FALSE, q |-> TRUE,  prec |-> 1],
         [ps |-> <<"b">>,     oc |-> FALSE, q |-> FALSE, prec |-> 0] }
WC5 == WC3 \cup { [ps |-> <<"a">>, oc |-> TRUE, q |-> FALSE, prec |-> 0],
                  [ps |-> <<"b","a">>, oc |-> FALSE, q |-> TRUE, prec |-> 2] }
WCe == { [ps |-> <<"a","e">>, oc |-> TRUE,  q |-> FALSE, prec |-> 0],
         [ps |-> <<"e">>,     oc |-> FALSE, q |-> TRUE,  prec |-> 1],
         [ps |-> <<"a">>,     oc |-> FALSE, q |-> FALSE, prec |-> 0] }
P3c == <<"a","c">>
K3c == [a |-> "int", c |-> "const"]
D3c == [a |-> {0,1,9}, c |-> {9}]
WC1 == { [ps |-> <<"a","c">>, oc |-> TRUE,  q |-> FALSE, prec |-> 0],
         [ps |-> <<"a">>,     oc |-> FALSE, q |-> TRUE,  prec |-> 1] }
WCeq == { [ps |-> <<"a">>, oc |-> TRUE,  q |-> FALSE, prec |-> 0],
          [ps |-> <<"a","b">>, oc |-> TRUE, q |-> FALSE, prec |-> 1],
          [ps |-> <<"a">>, oc |-> FALSE, q |-> FALSE, prec |-> 0] }
\* initial watcher set-ups: none, each single configuration, each ordered pair of distinct ones
Seqs01(S) == {<<>>} \cup {<<x>> : x \in S}
Seqs2(S) == {<<x, y>> : x \in S, y \in S}
IW0 == {<<>>}
c1 == [ps |-> <<"a","b">>, oc |-> TRUE,  q |-> FALSE, prec |-> 0]
c2 == [ps |-> <<"a">>,     oc |-> FALSE, q |-> TRUE,  prec |-> 1]
c3 == [ps |-> <<"b">>,     oc |-> FALSE, q |-> FALSE, prec |-> 0]
IWq == { <<c1>>, <<c2, c1>>, <<c1, c3>>, <<c3, c2>> }
IW3 == Seqs01(WC3) \cup Seqs2(WC3)
IW5 == Seqs01(WC5) \cup Seqs2(WC5)
IWe == Seqs01(WCe) \cup Seqs2(WCe)
IW1 == Seqs01(WC1) \cup Seqs2(WC1)
IWeq == Seqs01(WCeq) \cup Seqs2(WCeq)
\* narrowed update items for generation
UI2 == { <<<<"a",1>>>>, <<<<"b",0>>>>, <<<<"a",1>>,<<"b",1>>>>, <<<<"b",1>>,<<"a",0>>>> }
UI2bad == UI2 \cup { <<<<"a",9>>>>, <<<<"a",1>>,<<"b",9>>>>, <<<<"b",1>>,<<"a",9>>>> }
UIe == { <<<<"a",1>>>>, <<<<"e",1>>>>, <<<<"a",1>>,<<"e",1>>>>, <<<<"e",1>>,<<"a",0>>>> }
UIebad == UIe \cup { <<<<"e",1>>,<<"a",9>>>>, <<<<"a",9>>>>, <<<<"a",9>>,<<"e",1>>>> }   \* a rejected key after / before an Event key
UIc == { <<<<"a",1>>>>, <<<<"a",1>>,<<"c",9>>>>, <<<<"c",9>>>> }
UIeq == { <<<<"a",2>>>>, <<<<"a",4>>,<<"b",1>>>>, <<<<"b",1>>,<<"a",5>>>>, <<<<"a",3>>>> }
TN2 == { <<"a">>, <<"b">>, <<"a","b">> }
TNe == { <<"a">>, <<"e">>, <<"a","e">> }
TNc == { <<"a">>, <<"c">> }
P2 == <<"a","b">>
K2 == [a |-> "int", b |-> "int"]
D2 == [a |-> {0,1,9}, b |-> {0,1,9}]
D2ok == [a |-> {0,1}, b |-> {0,1}]
P3e == <<"a","e">>
K3e == [a |-> "int", e |-> "event"]
D3e == [a |-> {0,1,9}, e |-> {1}]
D3eb == [a |-> {0,1,9}, e |-> {1,9}]
Peq == <<"a","b">>
Keq == [a |-> "any", b |-> "int"]
Deq == [a |-> {0,1,2,3,4,5}, b |-> {0,1}]
ActsC03n == {"unwatch","set","update","trigger"}
ActsC04n == {"set","update","updatectx","trigger","batch","discard"}
ActsC05n == {"set","update","trigger","batch","discard","raise","raisebody"}
\* a Parameter attribute ("slot": here the bounds of a) as a second dispatch name: events carry
\* what = "bounds"; slot watchers all have the same precedence (the property orders value watchers only);
\* the third configuration is a watch_values (kwargs-mode) watcher
Ps == <<"a", "sa">>
Ks == [a |-> "int", sa |-> "slot"]
Ds == [a |-> {0,1,9}, sa |-> {0,1,7}]
WCs == { [ps |-> <<"a">>,  oc |-> TRUE,  q |-> FALSE, prec |-> 0],
         [ps |-> <<"sa">>, oc |-> TRUE,  q |-> FALSE, prec |-> 0],
         [ps |-> <<"sa">>, oc |-> FALSE, q |-> TRUE,  prec |-> 0],
         [ps |-> <<"a">>,  oc |-> FALSE, q |-> FALSE, prec |-> 1, mode |-> "kwargs"] }
IWs == Seqs01(WCs) \cup Seqs2(WCs)
UIs == { <<<<"a",1>>>>, <<<<"a",0>>>>, <<<<"a",9>>>> }
TNs == { <<"a">> }
ActsC03sl == {"set","update","trigger","batch","unwatch"}
\* directed configuration: a queued watcher on a, an ordinary one on a after it, and a watcher on b -- so that a
\* callback of the second can make (and catch the failure of) an assignment while the first one's events are queued
WCnest == { [ps |-> <<"a">>, oc |-> TRUE, q |-> TRUE,  prec |-> 0],
            [ps |-> <<"a">>, oc |-> TRUE, q |-> FALSE, prec |-> 1],
            [ps |-> <<"b">>, oc |-> TRUE, q |-> FALSE, prec |-> 0] }
IWnest == { << [ps |-> <<"a">>, oc |-> TRUE, q |-> TRUE,  prec |-> 0], [ps |-> <<"a">>, oc |-> TRUE, q |-> FALSE, prec |-> 1],
               [ps |-> <<"b">>, oc |-> TRUE, q |-> FALSE, prec |-> 0] >> }
ActsNest == {"set", "raise"}
\* the same for Parameter-attribute watchers
WCsnest == { [ps |-> <<"sa">>, oc |-> TRUE, q |-> TRUE,  prec |-> 0], [ps |-> <<"sa">>, oc |-> TRUE, q |-> FALSE, prec |-> 0],
             [ps |-> <<"a">>,  oc |-> TRUE, q |-> FALSE, prec |-> 0] }
IWsnest == { << [ps |-> <<"sa">>, oc |-> TRUE, q |-> TRUE,  prec |-> 0], [ps |-> <<"sa">>, oc |-> TRUE, q |-> FALSE, prec |-> 0],
                [ps |-> <<"a">>,  oc |-> TRUE, q |-> FALSE, prec |-> 0] >> }
ActsC02 == {"set","update","batch","watch"}
ActsC03s == {"watch","set","update"}
ActsAll == {"watch","unwatch","set","update","updatectx","trigger","batch","discard","raise","raisebody"}
ActsC03 == {"watch","unwatch","set","update","trigger"}
ActsC04 == {"watch","set","update","updatectx","trigger","batch","discard"}
ActsC05 == {"watch","set","update","trigger","batch","discard","raise","raisebody"}
====
