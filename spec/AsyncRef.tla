----------------------------- MODULE AsyncRef -----------------------------
(***************************************************************************
 C10: one allow_refs parameter driven by asynchronous references (coroutine
 functions, async generators with two yields) and plain values, on a FIFO
 single-threaded event loop.  Every interleaving of

   Assign(kind)   the user assigns the parameter (a task is created for an
                  asynchronous reference; an already registered task is
                  cancelled -- Parameter.__set__ / _resolve_ref / _update_ref)
   Resolve(i, k)  the k-th awaitable of assignment i completes
   Tick           the event loop runs exactly one ready callback (first step
                  of a task, or a wake-up)

 is explored.  The task body is Parameters._async_ref (parameterized.py):
 first step registers the task (or cancels the registered one), then awaits;
 every result is applied with param.update inside the _syncing scope; the
 finally clause unregisters.  asyncio's cancellation cases are modelled
 explicitly (task not started; suspended on a pending future; future done
 but wake-up not run yet).

 Result tokens: coroutine of assignment i -> 1000+i; k-th yield of generator
 i -> 2000+10*i+k; plain value of assignment i -> 3000+i.

 Known finding, computed by the module as the ghost `tainted`: a task is
 registered only at its own first step, so an assignment made before that
 step cannot cancel it, and a task that starts while another one is
 registered cancels it without registering itself.  LatestWins / NoLateApply
 are claimed (and checked by TLC) for untainted behaviours.
 ***************************************************************************)
EXTENDS Naturals, Sequences, FiniteSets, TLC, Json
CONSTANTS N, KindsA, RecordHist, MaxSteps

VARIABLES val, kind, nasg, hasref, aref, task, fut, ready, steps, tainted, lateapply, hist
vars == <<val, kind, nasg, hasref, aref, task, fut, ready, steps, tainted, lateapply, hist>>

Slots == 1..N
NY(i) == IF kind[i] = "gen" THEN 2 ELSE 1
Result(i, k) == IF kind[i] = "gen" THEN 2000 + 10 * i + k ELSE 1000 + i
Vis(rec) == hist' = IF RecordHist THEN Append(hist, rec) ELSE hist
ObsOf(v, f) == [val |-> v, fut |-> f]

Init == /\ val = 0 /\ kind = [i \in Slots |-> "none"] /\ nasg = 0 /\ hasref = 0 /\ aref = 0
        /\ task = [i \in Slots |-> [st |-> "none", k |-> 0, must |-> FALSE]]
        /\ fut = [i \in Slots |-> <<"none", "none">>]
        /\ ready = <<>> /\ steps = 0 /\ tainted = FALSE /\ lateapply = FALSE /\ hist = <<>>

\* Task.cancel() on task c
CancelT(c, tk, f, r) ==
  IF c = 0 THEN <<tk, f, r>>
  ELSE IF tk[c].st = "new" THEN <<[tk EXCEPT ![c].must = TRUE], f, r>>
  ELSE IF tk[c].st = "wait" /\ f[c][tk[c].k] = "pending"
       THEN <<tk, [f EXCEPT ![c][tk[c].k] = "cancelled"], Append(r, c)>>
  ELSE IF tk[c].st = "wait" /\ f[c][tk[c].k] = "done" THEN <<[tk EXCEPT ![c].must = TRUE], f, r>>
  ELSE <<tk, f, r>>

Bound == steps < MaxSteps /\ steps' = steps + 1
Unstarted == \E i \in Slots : task[i].st = "new" /\ ~task[i].must

AssignAsync(kd) ==
  /\ Bound /\ nasg < N /\ kd \in KindsA \cap {"coro", "gen", "bad"}
  /\ LET i == nasg + 1
         f0 == [fut EXCEPT ![i] = IF kd = "gen" THEN <<"pending", "pending">> ELSE <<"pending", "none">>]
         c == CancelT(aref, [task EXCEPT ![i] = [st |-> "new", k |-> 0, must |-> FALSE]], f0, Append(ready, i))
     IN /\ nasg' = i /\ kind' = [kind EXCEPT ![i] = kd]
        /\ task' = c[1] /\ fut' = c[2] /\ ready' = c[3]
        /\ aref' = 0 /\ hasref' = i
        /\ tainted' = (tainted \/ Unstarted)
        /\ Vis([a |-> "assign", kind |-> kd, i |-> i, obs |-> ObsOf(val, c[2]), kf |-> IF Unstarted THEN {"KF_UnstartedTask"} ELSE {}])
  /\ UNCHANGED <<val, lateapply>>

\* same: the value assigned is the very object the parameter holds at that moment (an override like any other)
AssignPlain(same) ==
  /\ Bound /\ nasg < N /\ (IF same THEN "same" ELSE "plain") \in KindsA
  /\ LET i == nasg + 1
         nv == IF same THEN val ELSE 3000 + i
         c == IF hasref # 0 THEN CancelT(aref, task, fut, ready) ELSE <<task, fut, ready>>
     IN /\ nasg' = i /\ kind' = [kind EXCEPT ![i] = IF same THEN "same" ELSE "plain"]
        /\ hasref' = 0 /\ aref' = 0
        /\ task' = c[1] /\ fut' = c[2] /\ ready' = c[3]
        /\ val' = nv
        /\ tainted' = (tainted \/ Unstarted)
        /\ Vis([a |-> "assign", kind |-> IF same THEN "same" ELSE "plain", i |-> i, obs |-> ObsOf(nv, c[2]), kf |-> IF Unstarted THEN {"KF_UnstartedTask"} ELSE {}])
  /\ UNCHANGED <<lateapply>>

Resolve(i, k) ==
  /\ Bound /\ i \in Slots /\ k \in 1..2 /\ fut[i][k] = "pending"
  /\ (k = 2 => fut[i][1] # "pending")            \* awaitables of one generator complete in order
  /\ fut' = [fut EXCEPT ![i][k] = "done"]
  /\ ready' = IF task[i].st = "wait" /\ task[i].k = k THEN Append(ready, i) ELSE ready
  /\ Vis([a |-> "resolve", i |-> i, k |-> k, obs |-> ObsOf(val, fut'), kf |-> {}])
  /\ UNCHANGED <<val, kind, nasg, hasref, aref, task, tainted, lateapply>>

\* run task t from the point where it is about to await its k-th awaitable, with current value v:
\* results already available are applied at once; the task suspends on the first pending one
RECURSIVE Run(_, _, _)
Run(t, k, v) ==
  IF k > NY(t) THEN [v |-> v, st |-> "done", k |-> 0]
  \* ("bad": a coroutine whose result the parameter rejects -- applying it raises inside the task, the value
  \*  stays, the task ends and unregisters like any other)
  ELSE IF fut[t][k] = "done" THEN (IF kind[t] = "bad" THEN [v |-> v, st |-> "done", k |-> 0] ELSE Run(t, k + 1, Result(t, k)))
  ELSE [v |-> v, st |-> "wait", k |-> k]

Tick ==
  /\ Bound /\ ready # <<>>
  /\ LET t == Head(ready) r0 == Tail(ready) IN
     CASE task[t].st = "new" /\ task[t].must ->
            \* CancelledError thrown into the unstarted coroutine: the body never runs
            /\ task' = [task EXCEPT ![t].st = "cancelled"] /\ ready' = r0
            /\ Vis([a |-> "tick", t |-> t, what |-> "cancel_unstarted", obs |-> ObsOf(val, fut), kf |-> {}])
            /\ UNCHANGED <<val, kind, nasg, hasref, aref, fut, tainted, lateapply>>
       [] task[t].st = "new" /\ ~task[t].must ->
            \* first step of _async_ref: register / cancel the registered task, then run to the first pending await
            LET c == IF aref # 0 /\ aref # t THEN CancelT(aref, task, fut, r0) ELSE <<task, fut, r0>>
                run == Run(t, 1, val)
                ar1 == IF aref = 0 THEN t ELSE aref
                applied == run.v # val
            IN /\ val' = run.v
               /\ task' = [c[1] EXCEPT ![t] = [st |-> run.st, k |-> run.k, must |-> FALSE]]
               /\ fut' = c[2] /\ ready' = c[3]
               /\ aref' = IF run.st = "done" /\ ar1 = t THEN 0 ELSE ar1
               /\ tainted' = (tainted \/ (aref # 0 /\ aref # t))
               /\ lateapply' = (lateapply \/ (applied /\ t # nasg))
               /\ Vis([a |-> "tick", t |-> t, what |-> "start", obs |-> ObsOf(run.v, c[2]),
                       kf |-> IF aref # 0 /\ aref # t THEN {"KF_UnstartedTask"} ELSE {}])
               /\ UNCHANGED <<kind, nasg, hasref>>
       [] task[t].st = "wait" /\ fut[t][task[t].k] = "done" /\ task[t].must ->
            /\ aref' = IF aref = t THEN 0 ELSE aref
            /\ task' = [task EXCEPT ![t].st = "cancelled"] /\ ready' = r0
            /\ Vis([a |-> "tick", t |-> t, what |-> "cancelled", obs |-> ObsOf(val, fut), kf |-> {}])
            /\ UNCHANGED <<val, kind, nasg, hasref, fut, tainted, lateapply>>
       [] task[t].st = "wait" /\ fut[t][task[t].k] = "done" /\ ~task[t].must ->
            LET run == Run(t, task[t].k, val) IN
            /\ val' = run.v
            /\ task' = [task EXCEPT ![t] = [st |-> run.st, k |-> run.k, must |-> FALSE]]
            /\ aref' = IF run.st = "done" /\ aref = t THEN 0 ELSE aref
            /\ ready' = r0
            /\ lateapply' = (lateapply \/ (t # nasg /\ kind[t] # "bad"))
            /\ Vis([a |-> "tick", t |-> t, what |-> "apply", obs |-> ObsOf(run.v, fut), kf |-> {}])
            /\ UNCHANGED <<kind, nasg, hasref, fut, tainted>>
       [] task[t].st = "wait" /\ fut[t][task[t].k] = "cancelled" ->
            /\ aref' = IF aref = t THEN 0 ELSE aref
            /\ task' = [task EXCEPT ![t].st = "cancelled"] /\ ready' = r0
            /\ Vis([a |-> "tick", t |-> t, what |-> "cancelled", obs |-> ObsOf(val, fut), kf |-> {}])
            /\ UNCHANGED <<val, kind, nasg, hasref, fut, tainted, lateapply>>
       [] OTHER ->
            /\ ready' = r0 /\ Vis([a |-> "tick", t |-> t, what |-> "noop", obs |-> ObsOf(val, fut), kf |-> {}])
            /\ UNCHANGED <<val, kind, nasg, hasref, aref, task, fut, tainted, lateapply>>

Next == (\E kd \in {"coro", "gen", "bad"} : AssignAsync(kd)) \/ (\E same \in BOOLEAN : AssignPlain(same)) \/ (\E i \in Slots, k \in 1..2 : Resolve(i, k)) \/ Tick
Spec == Init /\ [][Next]_vars

\* ---- C10 ------------------------------------------------------------------------------------
Live(i) == task[i].st \in {"new", "wait"}
Quiescent == ready = <<>> /\ \A i \in Slots : ~Live(i) \/ (task[i].st = "wait" /\ fut[i][task[i].k] = "pending")
AllDone(i) == \A k \in 1..NY(i) : fut[i][k] = "done"
Expected == IF nasg = 0 THEN 0 ELSE IF kind[nasg] = "plain" THEN 3000 + nasg ELSE Result(nasg, NY(nasg))
\* once everything has completed the parameter holds the result of the most recent assignment
LatestWins == (~tainted /\ Quiescent /\ nasg > 0 /\ kind[nasg] \notin {"bad", "same"} /\ (kind[nasg] # "plain" => AllDone(nasg))) => val = Expected
\* a result of a superseded reference is never applied after a newer assignment
NoLateApply == ~tainted => ~lateapply
\* a plain value cancels pending references for good: afterwards no task of an older assignment is live
PlainCancels == (~tainted /\ nasg > 0 /\ kind[nasg] \in {"plain", "same"} /\ ready = <<>>) => \A i \in Slots : ~Live(i)
TypeOK == steps \in 0..MaxSteps /\ nasg \in 0..N

Emit == (RecordHist /\ steps = MaxSteps) => PrintT(<<"BEHAVIOUR", ToJson([steps |-> hist, tainted |-> tainted])>>)
=============================================================================
