---------------------------- MODULE DependsPath ----------------------------
(***************************************************************************
 C07: a method of a parent object depends on parameters reached through
 sub-objects ('a.x', 'a.param', 'a.b.x', several leaves under one or under
 different sub-objects).

 Objects: one Top with sub-object parameters a and c; Mid objects with a
 sub-object parameter b; Leaf objects with integer parameters x and y.  With
 Deep = FALSE `a` and `c` hold leaves (paths of depth 1); with Deep = TRUE
 `a` holds Mid objects (paths of depth 2).  0 stands for None.

 Every action is one assignment (attach / replace / detach at some level, or
 a leaf assignment on an attached or detached object).  For each the module
 says how often the dependent method must run: exactly once if the value
 reached through the current path of some dependency changed, the path
 resolving before and after; never if no dependency's value changed -- in
 particular never because of a detached object; unspecified ("free") when a
 path starts or stops resolving.  It also says on which objects the parent
 may keep watchers: none on objects off every current path.
 ***************************************************************************)
EXTENDS Integers, Sequences, FiniteSets, TLC, Json

CONSTANTS DepSets,     \* subset of {"ax", "axay", "aparam", "axcx", "axcy", "abx", "abxaby", "abxcx", "azabx"}
          Leaves, Mids, MaxOps, RecordHist

VARIABLES deps, ta, tc, midb, leaf, nops, hist,
          midz      \* an integer parameter z of the Mid objects ('a.z': a dependency that ends one level above 'a.b.x')
vars == <<deps, ta, tc, midb, leaf, nops, hist, midz>>

Deep(d) == d \in {"abx", "abxaby", "abxcx", "azabx"}
UsesC(d) == d \in {"axcx", "abxcx", "axcy"}
\* the dependency specs of a configuration
Specs(d) == CASE d = "ax" -> {"a.x"} [] d = "axay" -> {"a.x", "a.y"} [] d = "aparam" -> {"a.x", "a.y"}
              [] d = "axcx" -> {"a.x", "c.x"} [] d = "abx" -> {"a.b.x"} [] d = "abxaby" -> {"a.b.x", "a.b.y"}
              [] d = "abxcx" -> {"a.b.x", "c.x"}
              [] d = "axcy" -> {"a.x", "c.y"}          \* different leaf names under different roots
              [] d = "azabx" -> {"a.z", "a.b.x"}       \* dependencies of different depth through the same sub-object

Unres == -1
\* value reached through the current path of a spec (Unres if the path does not resolve)
LeafOf(a, c, mb, sp) ==
  CASE sp \in {"a.x", "a.y"} -> a
    [] sp \in {"c.x", "c.y"} -> c
    [] sp \in {"a.b.x", "a.b.y"} -> IF a = 0 THEN 0 ELSE mb[a]
Field(sp) == IF sp \in {"a.y", "a.b.y", "c.y"} THEN "y" ELSE "x"
PathValZ(a, c, mb, lf, mz, sp) ==
  IF sp = "a.z" THEN (IF a = 0 THEN Unres ELSE mz[a])
  ELSE LET l == LeafOf(a, c, mb, sp) IN IF l = 0 THEN Unres ELSE lf[l][Field(sp)]
PathVal(a, c, mb, lf, sp) == PathValZ(a, c, mb, lf, midz, sp)

\* objects on some current path (the parent may watch these)
OnPath(a, c, mb) ==
  (IF a # 0 THEN {<<IF Deep(deps) THEN "mid" ELSE "leaf", a>>} ELSE {})
  \cup (IF Deep(deps) /\ a # 0 /\ mb[a] # 0 THEN {<<"leaf", mb[a]>>} ELSE {})
  \cup (IF UsesC(deps) /\ c # 0 THEN {<<"leaf", c>>} ELSE {})

Init == /\ deps \in DepSets
        /\ ta \in (IF Deep(deps) THEN Mids ELSE Leaves) \cup {0}
        /\ tc \in (IF UsesC(deps) THEN Leaves \cup {0} ELSE {0})
        /\ midz = [m \in Mids |-> 0]
        /\ midb \in [Mids -> Leaves \cup {0}]
        /\ (~Deep(deps) => midb = [m \in Mids |-> 0])
        /\ leaf \in [Leaves -> [x : {0, 1}, y : {0}]]
        /\ nops = 0 /\ hist = <<>>

\* the chain of objects a spec passes through
Chain(a, c, mb, sp) ==
  CASE sp \in {"a.x", "a.y", "a.z"} -> <<a>>
    [] sp \in {"c.x", "c.y"} -> <<c>>
    [] sp \in {"a.b.x", "a.b.y"} -> <<a, IF a = 0 THEN 0 ELSE mb[a]>>
VerdictZ(a2, c2, mb2, lf2, mz2) ==
  LET st == [sp \in Specs(deps) |->
               LET b == PathVal(ta, tc, midb, leaf, sp) n == PathValZ(a2, c2, mb2, lf2, mz2, sp) IN
               \* not resolving before nor after: the property makes no claim if the operation
               \* rearranged this path; an operation elsewhere must not fire the method
               IF b = Unres /\ n = Unres
               THEN (IF Chain(ta, tc, midb, sp) = Chain(a2, c2, mb2, sp) THEN "same" ELSE "free")
               ELSE IF b = Unres \/ n = Unres THEN "free"
               ELSE IF b # n THEN "changed" ELSE "same"]
  IN IF \E sp \in Specs(deps) : st[sp] = "changed" THEN "once"
     ELSE IF \E sp \in Specs(deps) : st[sp] = "free" THEN "free" ELSE "never"
Verdict(a2, c2, mb2, lf2) == VerdictZ(a2, c2, mb2, lf2, midz)

\* (two deviations of the implementation found with this module -- only the first of several
\*  leaves under one sub-object was compared on replacement; replacing one sub-object dropped the
\*  watchers below the other -- are repaired in the repository: known_findings.json, "fixed: property=C07")
TagSecondLeaf(a2, c2, mb2, lf2) == FALSE
TagOtherRoot == FALSE

InitRec == [act |-> [name |-> "init"], deps |-> deps, ta |-> ta, tc |-> tc, midb |-> midb, leaf |-> leaf, midz |-> midz,
            onpath |-> OnPath(ta, tc, midb), kf |-> {}]
Rec(name, args, a2, c2, mb2, lf2, tags) ==
  hist' = IF RecordHist
          THEN Append(IF hist = <<>> THEN <<InitRec>> ELSE hist,
                      [act |-> [name |-> name] @@ args, verdict |-> Verdict(a2, c2, mb2, lf2),
                       onpath |-> LET d == deps IN
                                  (IF a2 # 0 THEN {<<IF Deep(d) THEN "mid" ELSE "leaf", a2>>} ELSE {})
                                  \cup (IF Deep(d) /\ a2 # 0 /\ mb2[a2] # 0 THEN {<<"leaf", mb2[a2]>>} ELSE {})
                                  \cup (IF UsesC(d) /\ c2 # 0 THEN {<<"leaf", c2>>} ELSE {}),
                       kf |-> tags])
          ELSE hist
Step == nops < MaxOps /\ nops' = nops + 1

SetA(v) == /\ Step /\ v # ta /\ v \in (IF Deep(deps) THEN Mids ELSE Leaves) \cup {0}
           /\ ta' = v /\ UNCHANGED <<deps, tc, midb, leaf, midz>>
           /\ Rec("seta", [v |-> v], v, tc, midb, leaf,
                  (IF TagSecondLeaf(v, tc, midb, leaf) THEN {"KF_SecondLeaf"} ELSE {}) \cup (IF TagOtherRoot THEN {"KF_OtherRoot"} ELSE {}))
SetC(v) == /\ Step /\ UsesC(deps) /\ v # tc /\ v \in Leaves \cup {0}
           /\ tc' = v /\ UNCHANGED <<deps, ta, midb, leaf, midz>>
           /\ Rec("setc", [v |-> v], ta, v, midb, leaf, IF TagOtherRoot THEN {"KF_OtherRoot"} ELSE {})
SetB(m, v) == /\ Step /\ Deep(deps) /\ m \in Mids /\ v \in Leaves \cup {0} /\ v # midb[m]
              /\ midb' = [midb EXCEPT ![m] = v] /\ UNCHANGED <<deps, ta, tc, leaf, midz>>
              /\ Rec("setb", [m |-> m, v |-> v], ta, tc, midb', leaf,
                     IF TagSecondLeaf(ta, tc, midb', leaf) THEN {"KF_SecondLeaf"} ELSE {})
SetLeaf(l, f, v) == /\ Step /\ l \in Leaves /\ leaf[l][f] # v
                    /\ leaf' = [leaf EXCEPT ![l][f] = v] /\ UNCHANGED <<deps, ta, tc, midb, midz>>
                    /\ Rec("setleaf", [l |-> l, f |-> f, v |-> v], ta, tc, midb, leaf', {})
\* an assignment to the integer parameter z of a Mid object (attached or not)
SetZ(m, v) == /\ Step /\ deps = "azabx" /\ m \in Mids /\ midz[m] # v
              /\ midz' = [midz EXCEPT ![m] = v] /\ UNCHANGED <<deps, ta, tc, midb, leaf>>
              /\ hist' = IF RecordHist
                         THEN Append(IF hist = <<>> THEN <<InitRec>> ELSE hist, [act |-> [name |-> "setz", m |-> m, v |-> v], verdict |-> VerdictZ(ta, tc, midb, leaf, midz'),
                                            onpath |-> OnPath(ta, tc, midb), kf |-> {}])
                         ELSE hist

Next == \/ \E v \in Leaves \cup Mids \cup {0} : SetA(v) \/ SetC(v)
        \/ \E m \in Mids, v \in Leaves \cup {0} : SetB(m, v)
        \/ \E l \in Leaves, f \in {"x", "y"}, v \in {0, 1} : SetLeaf(l, f, v)
        \/ \E m \in Mids, v \in {0, 1} : SetZ(m, v)
Spec == Init /\ [][Next]_vars

\* ---- properties on the specification --------------------------------------------------------
\* an assignment to a leaf that is on no current path never makes the method run
DetachedSilent ==
  [][\A l \in Leaves : (leaf'[l] # leaf[l] /\ <<"leaf", l>> \notin OnPath(ta, tc, midb)) =>
        Verdict(ta', tc', midb', leaf') = "never"]_vars
\* a verdict "once" always has a witness dependency whose value through the current path changed
OnceHasWitness ==
  [][Verdict(ta', tc', midb', leaf') = "once" =>
        \E sp \in Specs(deps) : PathVal(ta, tc, midb, leaf, sp) # PathVal(ta', tc', midb', leaf', sp)]_vars
TypeOK == nops \in 0..MaxOps
Emit == (RecordHist /\ nops = MaxOps) => PrintT(<<"BEHAVIOUR", ToJson([steps |-> hist])>>)
=============================================================================
