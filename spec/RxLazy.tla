------------------------------ MODULE RxLazy ------------------------------
(***************************************************************************
 C10, third part: a reactive expression piped through a coroutine that
 nobody watches -- `src.rx.pipe(f, other)` with two reactive inputs,
 evaluated lazily: an assignment to either input only marks the expression
 as out of date; the next read (`.rx.value`) calls f with the inputs of that
 moment, schedules the evaluation (rx._resolve, reactive.py:1655 ->
 _lazy_resolve -> _resolve_async) and hands back the value stored so far.

   Update(n)    the input n ("a" the pipeline's source, "b" the extra
                argument) is assigned a new value; the expression is dirty
   Read         .rx.value: if dirty, task j is created for the current
                inputs (and the expression is clean again); returns `value`
   Resolve(j)   the awaitable of task j completes (once it exists)
   Tick         the loop runs one ready callback: a new task registers as
                the current one and awaits; a woken task stores its result
                if it is still the current one
 Result of a task created for inputs (x, y): 1000 + 10 x + y.

 tainted (known finding, as in RxAsync): a woken task that is the newest one
 that has *started* stores its result although a newer one exists.
 ***************************************************************************)
EXTENDS Naturals, Sequences, FiniteSets, TLC, Json
CONSTANTS N,            \* at most N evaluations
          MaxUpd,       \* at most MaxUpd assignments per input
          MaxSteps, RecordHist
VARIABLES inp, dirty, ntask, args, task, cur, ready, value, steps, tainted, hist
vars == <<inp, dirty, ntask, args, task, cur, ready, value, steps, tainted, hist>>
Slots == 1..N
Res(xy) == 1000 + 10 * xy[1] + xy[2]
Vis(rec) == hist' = IF RecordHist THEN Append(hist, rec) ELSE hist
Obs(v, tk) == [value |-> v, futs |-> [i \in Slots |-> tk[i]]]

Init == /\ inp = [n \in {"a", "b"} |-> 0] /\ dirty = TRUE /\ ntask = 0 /\ args = [i \in Slots |-> <<0, 0>>]
        /\ task = [i \in Slots |-> "none"] /\ cur = 0 /\ ready = <<>> /\ value = 0
        /\ steps = 0 /\ tainted = FALSE /\ hist = <<>>
Bound == steps < MaxSteps /\ steps' = steps + 1

Update(n) == /\ Bound /\ inp[n] < MaxUpd
             /\ inp' = [inp EXCEPT ![n] = @ + 1] /\ dirty' = TRUE
             /\ Vis([a |-> "update", n |-> n, v |-> inp[n] + 1, obs |-> Obs(value, task), kf |-> {}])
             /\ UNCHANGED <<ntask, args, task, cur, ready, value, tainted>>
Read == /\ Bound
        /\ IF dirty
           THEN /\ ntask < N
                /\ ntask' = ntask + 1 /\ args' = [args EXCEPT ![ntask + 1] = <<inp["a"], inp["b"]>>]
                /\ task' = [task EXCEPT ![ntask + 1] = "new"] /\ ready' = Append(ready, ntask + 1)
                /\ dirty' = FALSE
           ELSE UNCHANGED <<ntask, args, task, ready, dirty>>
        /\ Vis([a |-> "read", ret |-> value, started |-> dirty, obs |-> Obs(value, task'), kf |-> {}])
        /\ UNCHANGED <<inp, cur, value, tainted>>
Resolve(j) == /\ Bound /\ task[j] = "wait"
              /\ task' = [task EXCEPT ![j] = "woken"] /\ ready' = Append(ready, j)
              /\ Vis([a |-> "resolve", j |-> j, xy |-> args[j], obs |-> Obs(value, task'), kf |-> {}])
              /\ UNCHANGED <<inp, dirty, ntask, args, cur, value, tainted>>
Tick == /\ Bound /\ ready # <<>>
        /\ LET t == Head(ready) IN
           /\ ready' = Tail(ready)
           /\ IF task[t] = "new"
              THEN /\ cur' = t /\ task' = [task EXCEPT ![t] = "wait"]
                   /\ UNCHANGED <<value, tainted>>
                   /\ Vis([a |-> "tick", t |-> t, what |-> "start", obs |-> Obs(value, task'), kf |-> {}])
              ELSE /\ task' = [task EXCEPT ![t] = "done"]
                   /\ value' = IF cur = t THEN Res(args[t]) ELSE value
                   /\ tainted' = (tainted \/ (cur = t /\ t # ntask))
                   /\ UNCHANGED cur
                   /\ Vis([a |-> "tick", t |-> t, what |-> IF cur = t THEN "store" ELSE "drop", obs |-> Obs(value', task'),
                           kf |-> IF cur = t /\ t # ntask THEN {"KF_RxUnstartedTask"} ELSE {}])
        /\ UNCHANGED <<inp, dirty, ntask, args>>
Next == (\E n \in {"a", "b"} : Update(n)) \/ Read \/ (\E j \in Slots : Resolve(j)) \/ Tick
Spec == Init /\ [][Next]_vars

AllDone == \A j \in 1..ntask : task[j] = "done"
\* once every evaluation has completed and the expression was read after the last assignment, it holds the
\* result belonging to the most recent assignment
LatestWins == (ntask > 0 /\ AllDone /\ ready = <<>> /\ ~dirty) => value = Res(<<inp["a"], inp["b"]>>)
\* a read after an assignment always starts an evaluation for the inputs of that moment: an assignment is never lost
NeverLost == (~dirty /\ ntask > 0) => args[ntask] = <<inp["a"], inp["b"]>>
TypeOK == steps \in 0..MaxSteps /\ ntask \in 0..N
Emit == (RecordHist /\ steps = MaxSteps) => PrintT(<<"BEHAVIOUR", ToJson([steps |-> hist])>>)
=============================================================================
