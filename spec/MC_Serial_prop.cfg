CONSTANTS
 Types <- TAll
 RecordHist = FALSE
INIT Init
NEXT Next
CHECK_DEADLOCK FALSE
INVARIANT RoundTrip
INVARIANT ValidStateValidates
INVARIANT OutOfBoundsRejected
