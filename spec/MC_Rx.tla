---- MODULE MC_Rx ----
EXTENDS Rx
a == In("a")
b == In("b")
p == In("p")
l == In("l")
d == In("d")
BinOps == {"add", "sub", "mul", "floordiv", "mod", "lt", "le", "eq", "ne", "gt", "ge"}
\* operators with a reactive left operand, with a constant left operand (reflected) and with two reactive operands
EOps == {Bin(op, a, C(2)) : op \in BinOps} \cup {Bin(op, C(2), a) : op \in BinOps} \cup {Bin(op, a, b) : op \in {"add", "floordiv", "mod", "lt"}}
EBasic == { Bin("add", a, a),
            Bin("mul", a, Bin("add", a, b)),                    \* an argument that mentions a shared input before a further one
            Idx(l, Bin("sub", Un("len", l), a)),                \* one input as root and inside the argument
            Bin("mul", Bin("add", a, C(1)), b),                 \* derived expression with a reactive argument
            Bin("mul", Bin("add", a, C(1)), Bin("add", a, C(1))),   \* shared sub-expression
            Bin("add", p, a), Bin("sub", a, p),                 \* a Parameter as root / as argument
            Un("neg", a), Un("abs", Bin("sub", a, C(1))), Un("not", a), Un("bool", a), Un("len", l),
            Idx(l, a), Idx(l, C(0)), Bin("add", Idx(l, a), b),
            And(a, b), Or(a, b), And(a, C(7)),
            And(a, Bin("floordiv", C(4), a)), Or(Bin("sub", a, C(1)), Bin("floordiv", C(4), Bin("sub", a, C(1)))),   \* short circuit
            InL(a, l), Pipe(a, b), Pipe(a, C(3)), PipeKw(a, b), PipeKw(a, p), Bin("add", PipeKw(a, b), C(1)), Map(l), Count(l, a), IsNone(a, FALSE), IsNone(Bin("add", a, b), TRUE),
            DCode(d), Bin("add", DCode(d), a), Un("len", d),        \* a dictionary input whose keys get renamed
            Bin("floordiv", C(4), Bin("sub", a, C(1))),         \* raises at a = 1 and recovers
            BindF(a, p), Bin("add", BindF(a, p), C(1)), Bin("add", b, BindF(a, C(1))) }
EWhere == { Where(a, b, p), Where(a, C(5), C(6)), Where(Bin("gt", a, C(1)), b, C(0)),
            Bin("add", Where(a, b, p), C(1)),                   \* derived from a where result
            Bin("add", b, Where(a, p, C(5))),                   \* a where result as argument
            Where(a, Where(b, p, C(3)), C(4)),                  \* nested where
            Pipe(Where(a, b, C(2)), p),
            Where(a, Bin("floordiv", C(4), a), C(7)),           \* guard pattern: the branch not selected cannot be evaluated
            Where(Bin("lt", a, C(2)), Idx(l, a), C(7)) }
EAll == EOps \cup EBasic \cup EWhere
EQuick == {Bin(op, a, C(2)) : op \in {"add", "floordiv", "lt"}} \cup {Bin(op, C(2), a) : op \in {"sub", "mod", "ge"}} \cup EBasic \cup EWhere
====
