---- MODULE MC_DependsPath ----
EXTENDS DependsPath
DShallow == {"ax", "axay", "aparam", "axcx"}
DDeep == {"abx", "abxaby", "abxcx"}
DAll == DShallow \cup DDeep
L2 == {1, 2}
L3 == {1, 2, 3}
M2 == {11, 12}
====
