---- MODULE MC_DependsPath ----
EXTENDS DependsPath
DShallow == {"ax", "axay", "aparam", "axcx", "axcy"}
DDeep == {"abx", "abxaby", "abxcx", "azabx"}
DAll == DShallow \cup DDeep
L2 == {1, 2}
L3 == {1, 2, 3}
M2 == {11, 12}
====
