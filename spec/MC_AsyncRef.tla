---- MODULE MC_AsyncRef ----
EXTENDS AsyncRef
KAll == {"coro", "gen", "plain"}
KBad == {"coro", "bad", "plain"}
KCoro == {"coro", "plain"}
====
