---- MODULE MC_AsyncRef ----
EXTENDS AsyncRef
KAll == {"coro", "gen", "plain", "same"}
KBad == {"coro", "bad", "plain"}
KCoro == {"coro", "plain", "same"}
====
