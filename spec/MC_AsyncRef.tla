---- MODULE MC_AsyncRef ----
EXTENDS AsyncRef
KAll == {"coro", "gen", "plain"}
KCoro == {"coro", "plain"}
====
