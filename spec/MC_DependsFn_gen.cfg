CONSTANTS
 DepLists <- DL
 RecordHist = TRUE
INIT Init
NEXT Next
CHECK_DEADLOCK FALSE
INVARIANT Emit
