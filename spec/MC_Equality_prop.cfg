CONSTANTS
 RecordHist = FALSE
INIT Init
NEXT Next
CHECK_DEADLOCK FALSE
INVARIANT Symmetric
INVARIANT Reflexive
INVARIANT NaNNeverEqual
