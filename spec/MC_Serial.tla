---- MODULE MC_Serial ----
EXTENDS Serial
TAll == {"Integer", "Number", "String", "Boolean", "Color", "Tuple", "NumericTuple", "XYCoordinates", "Range", "Date", "CalendarDate",
         "DateRange", "CalendarDateRange", "List", "Dict", "Selector", "ListSelector", "ClassSelector"}
====
