---------------------------- MODULE ClassModel ----------------------------
(***************************************************************************
 Ownership of parameter values and Parameter objects across a class
 hierarchy and its instances (C12, C13, C14).

 An explicit heap:
   P          Parameter objects (identity = index): default, constant,
              readonly, inst(antiate), perinst, bounds
   cdict[c]   the class's own __dict__ : name -> Parameter id (0 = absent)
   cells      mutable value objects (lists): identity = index, content = an int
   I          instances: class, values (name -> value | unset), per-instance
              Parameter copies ip (name -> id | 0), `initialized`, edit depth
 Values are records: [t |-> "int", v |-> n] or [t |-> "cell", id |-> k].

 The module is declarative where the implementation caches: attribute lookup
 and the `.param` namespace are both *defined* by the MRO walk (Lookup), so
 `NamespaceAgrees` holds by construction in the specification and every read
 of the namespace is an explicit action (reads populate the implementation's
 caches; the replay performs them).  Copy-on-write of inherited Parameters
 (metaclass __setattr__, parameterized.py:4441), lazily created per-instance
 Parameter copies (Parameters.__getitem__), instantiate / constant handling
 in the constructor (_setup_params) and edit_constant are actions.
 ***************************************************************************)
EXTENDS Integers, Sequences, FiniteSets, TLC, Json

CONSTANTS Classes,      \* sequence, root first: <<"A","B","C">>
          MroOf,        \* MroOf[c]: the method resolution order of c, c first, root last (a chain, or a diamond)
          NameSeq,      \* sequence of the parameter names declared on the root
          Kind,         \* Kind[n] \in {"plain", "mut_inst", "mut_shared", "const", "readonly", "noperinst"}
          Extra,        \* a name that can be added later with add_parameter
          Acts, MaxOps, MaxInst, RecordHist

VARIABLES P, cdict, cells, I, nops, hist
vars == <<P, cdict, cells, I, nops, hist>>

Names == {NameSeq[i] : i \in 1..Len(NameSeq)}
NameIdx(n) == CHOOSE i \in 1..Len(NameSeq) : NameSeq[i] = n
CSet == {Classes[i] : i \in 1..Len(Classes)}
Idx(c) == CHOOSE i \in 1..Len(Classes) : Classes[i] = c
Mro(c) == MroOf[c]
Sub(c) == {d \in CSet : \E i \in 1..Len(MroOf[d]) : MroOf[d][i] = c}      \* c and its descendants
DeclIn(cd, c, n) == \E i \in 1..Len(MroOf[c]) : cd[MroOf[c][i]][n] # 0
HolderIn(cd, c, n) == MroOf[c][CHOOSE i \in 1..Len(MroOf[c]) : cd[MroOf[c][i]][n] # 0 /\ \A j \in 1..i-1 : cd[MroOf[c][j]][n] = 0]
\* objects lists of Selector-like parameters are cells holding a set of tokens, encoded as a bit mask
Bit(v) == CASE v = 1 -> 1 [] v = 2 -> 2 [] v = 3 -> 4
Has(mask, v) == (mask \div Bit(v)) % 2 = 1
Add(mask, v) == IF Has(mask, v) THEN mask ELSE mask + Bit(v)
SelKinds == {"sel0", "sel1"}
AllNames == Names \cup {Extra}

IntV(n) == [t |-> "int", v |-> n]
Cell(k) == [t |-> "cell", id |-> k]
Unset == [t |-> "unset"]
IntVals == {IntV(1), IntV(2)}
BadV == IntV(9)     \* outside the declared bounds of a plain parameter
NoneVal == [t |-> "none"]    \* plain parameters allow None
GenVal == [t |-> "gen"]      \* a callable assigned to a (Dynamic) plain parameter of an instance: reads as 1
BadEq == [t |-> "badeq"]   \* a value of the wrong type that compares equal to the current value (float(v) for an Integer)
IsBad(v) == v = BadV \/ v = BadEq

\* ---- lookup: what attribute access and the .param namespace must both resolve to ----------
Declared(c, n) == \E i \in 1..Len(Mro(c)) : cdict[Mro(c)[i]][n] # 0
Holder(c, n) == Mro(c)[CHOOSE i \in 1..Len(Mro(c)) : cdict[Mro(c)[i]][n] # 0 /\ \A j \in 1..i-1 : cdict[Mro(c)[j]][n] = 0]
Lookup(c, n) == cdict[Holder(c, n)][n]
ClassVal(c, n) == P[Lookup(c, n)].default
IParam(i, n) == IF I[i].ip[n] # 0 THEN I[i].ip[n] ELSE Lookup(I[i].cls, n)
InstVal(i, n) == IF I[i].vals[n] # Unset THEN I[i].vals[n] ELSE ClassVal(I[i].cls, n)

NewParam(kind, dflt, owner) ==
  [default |-> dflt, constant |-> kind \in {"const", "constnone", "readonly"}, readonly |-> kind = "readonly",
   inst |-> kind = "mut_inst", perinst |-> kind # "noperinst", bounds |-> 0, owner |-> owner, ol |-> 0]

\* ---- projection: everything C12 / C13 / C14 talk about ---------------------------------------
ValObs(v) == IF v.t = "cell" THEN [t |-> "cell", id |-> v.id, c |-> cells[v.id]] ELSE v
Show(v, ce) == IF v.t = "cell" THEN [t |-> "cell", id |-> v.id, c |-> ce[v.id]] ELSE IF v.t = "gen" THEN IntV(1) ELSE v
ObsOf(P2, cd2, ce2, I2) ==   \* evaluated on the primed state by the callers
  [editopen |-> (\E j \in 1..Len(I2) : I2[j].edit > 0),
   classes |-> [c \in CSet |-> [n \in {m \in AllNames : DeclIn(cd2, c, m)} |->
       LET h == HolderIn(cd2, c, n)
           p == P2[cd2[h][n]]
       IN [val |-> Show(p.default, ce2),
           holder |-> h, bounds |-> p.bounds, constant |-> p.constant, objs |-> IF p.ol = 0 THEN 0 ELSE ce2[p.ol]]]],
   insts |-> [i \in 1..Len(I2) |-> [n \in {m \in AllNames : DeclIn(cd2, I2[i].cls, m)} |->
       LET c == I2[i].cls
           h == HolderIn(cd2, c, n)
           cp == P2[cd2[h][n]]
           ip == IF I2[i].ip[n] # 0 THEN P2[I2[i].ip[n]] ELSE cp
           v == IF I2[i].vals[n] # Unset THEN I2[i].vals[n] ELSE cp.default
       IN [val |-> Show(v, ce2),
           own |-> I2[i].ip[n] # 0, bounds |-> ip.bounds, constant |-> ip.constant, objs |-> IF ip.ol = 0 THEN 0 ELSE ce2[ip.ol]]]]]

Init == /\ P = [i \in 1..Len(NameSeq) |->
                  [NewParam(Kind[NameSeq[i]], IF Kind[NameSeq[i]] \in {"mut_inst", "mut_shared", "const"} THEN Cell(i)
                            ELSE IF Kind[NameSeq[i]] \in {"constnone", "sel0"} THEN [t |-> "none"]
                            ELSE IF Kind[NameSeq[i]] = "sel1" THEN IntV(1) ELSE IntV(0), Classes[1])
                   EXCEPT !.ol = IF Kind[NameSeq[i]] \in SelKinds THEN i ELSE 0]]
        \* (cell i: the default list of a mutable-valued parameter i, or the objects list of a Selector-like one)
        /\ cells = [i \in 1..Len(NameSeq) |-> IF Kind[NameSeq[i]] = "sel1" THEN Bit(1) ELSE 0]
        /\ cdict = [c \in CSet |-> [n \in AllNames |-> IF c = Classes[1] /\ n \in Names THEN NameIdx(n) ELSE 0]]
        /\ I = <<>> /\ nops = 0
        /\ hist = IF RecordHist
                  THEN <<[act |-> [name |-> "init"], res |-> "ok", obs |-> ObsOf(P, cdict, cells, I), kf |-> {}]>>
                  ELSE <<>>

Rec(name, args, res, P2, cd2, ce2, I2, tags) ==
  hist' = IF RecordHist
          THEN Append(hist, [act |-> [name |-> name] @@ args, res |-> res, obs |-> ObsOf(P2, cd2, ce2, I2), kf |-> tags])
          ELSE hist
Step == nops < MaxOps /\ nops' = nops + 1

EditOpen == \E j \in 1..Len(I) : I[j].edit > 0
\* does some instance of c or a descendant already hold a per-instance copy of n?
StaleCopyRisk(c, n) == \E i \in 1..Len(I) : I[i].cls \in Sub(c) /\ I[i].ip[n] # 0

\* ---- actions ------------------------------------------------------------------------------
\* reads of the namespace: no abstract effect (they populate the implementation's caches)
ReadNS(c) == /\ "readns" \in Acts /\ Step
             /\ UNCHANGED <<P, cdict, cells, I>>
             /\ Rec("readns", [c |-> c], "ok", P, cdict, cells, I, {})

\* the per-instance copy of a class Parameter: a shallow copy whose mutable attributes (the objects list)
\* are copied as well (_instantiate_param_obj); given the cells so far, returns <<record, cells'>>
InstCopy(src, ce) == IF P[src].ol = 0 THEN <<P[src], ce>>
                     ELSE <<[P[src] EXCEPT !.ol = Len(ce) + 1], Append(ce, ce[P[src].ol])>>
\* `i.param[n]`: creates the per-instance Parameter copy if the Parameter is per_instance
InstParam(i, n) ==
  /\ "instparam" \in Acts /\ Step /\ i \in 1..Len(I) /\ Declared(I[i].cls, n)
  /\ IF I[i].ip[n] = 0 /\ P[Lookup(I[i].cls, n)].perinst
     THEN /\ P' = Append(P, InstCopy(Lookup(I[i].cls, n), cells)[1])
          /\ cells' = InstCopy(Lookup(I[i].cls, n), cells)[2]
          /\ I' = [I EXCEPT ![i].ip[n] = Len(P) + 1]
     ELSE UNCHANGED <<P, I, cells>>
  /\ UNCHANGED <<cdict>>
  /\ Rec("instparam", [i |-> i, n |-> n], "ok", P', cdict, cells', I',
         IF EditOpen /\ I[i].edit = 0 /\ I[i].ip[n] = 0 /\ P[Lookup(I[i].cls, n)].constant
         THEN {"KF_ClassFlagClearedDuringEdit"} ELSE {})

\* class-level assignment `c.n = v` : copy-on-write of an inherited Parameter, then set its default
ClassSet(c, n, v) ==
  /\ "classset" \in Acts /\ Step /\ Declared(c, n) /\ v # GenVal
  /\ (v = BadEq => ClassVal(c, n).t = "int")
  /\ (n \in Names => Kind[n] \notin SelKinds)
  /\ LET src == Lookup(c, n) IN
     IF IsBad(v)
     THEN \* rejected by validation (out of bounds / wrong type): nothing changes
          /\ UNCHANGED <<P, cdict, cells, I>>
          /\ Rec("classset", [c |-> c, n |-> n, v |-> v], "ValueError", P, cdict, cells, I, {})
     ELSE IF P[src].readonly
     THEN /\ UNCHANGED <<P, cdict, cells, I>>
          \* (the implementation copies the inherited Parameter into c before the assignment is refused)
          /\ Rec("classset", [c |-> c, n |-> n, v |-> v], "TypeError", P, cdict, cells, I,
                 IF EditOpen /\ cdict[c][n] = 0 THEN {"KF_ClassFlagClearedDuringEdit"} ELSE {})
     ELSE LET own == cdict[c][n] # 0
              pid == IF own THEN src ELSE Len(P) + 1
              isnew == v.t = "newcell"
              val == IF isnew THEN Cell(Len(cells) + 1) ELSE IF v.t = "same" THEN P[src].default ELSE v     \* "same": c.n = c.n
              P1 == IF own THEN P ELSE Append(P, [P[src] EXCEPT !.owner = c])
          IN /\ P' = [P1 EXCEPT ![pid].default = val]
             /\ cdict' = [cdict EXCEPT ![c][n] = pid]
             /\ cells' = IF isnew THEN Append(cells, 0) ELSE cells
             /\ UNCHANGED I
             /\ Rec("classset", [c |-> c, n |-> n, v |-> v], "ok", P', cdict', cells', I,
                    (IF StaleCopyRisk(c, n) THEN {"KF_StaleInstanceParam"} ELSE {})
                    \cup (IF EditOpen /\ ~own /\ P[src].constant THEN {"KF_ClassFlagClearedDuringEdit"} ELSE {}))

\* `c.param.add_parameter(n, Parameter(default=v))`
\* route "add": c.param.add_parameter(n, Parameter(default=v)); route "assign": setattr(c, n, Parameter(default=v))
AddParameter(c, n, v, route) ==
  /\ "addparam" \in Acts /\ Step
  /\ (n \in Names => Kind[n] = "plain")        \* overriding a declaration: plain parameters only
  \* attributes the new Parameter leaves unset are inherited from the Parameter of the same name that
  \* follows in c's MRO (C11); here that is the `bounds` token
  /\ LET up == {j \in 2..Len(Mro(c)) : cdict[Mro(c)[j]][n] # 0}
         first == CHOOSE j \in up : \A k \in up : j <= k
         inh == IF up = {} THEN 0 ELSE P[cdict[Mro(c)[first]][n]].bounds
     IN P' = Append(P, [NewParam("plain", v, c) EXCEPT !.bounds = inh])
  /\ cdict' = [cdict EXCEPT ![c][n] = Len(P) + 1]
  /\ UNCHANGED <<cells, I>>
  /\ Rec("addparam", [c |-> c, n |-> n, v |-> v, route |-> route], "ok", P', cdict', cells, I,
         (IF StaleCopyRisk(c, n) THEN {"KF_StaleInstanceParam"} ELSE {}))

\* constructor: instantiate=True values are deep-copied, constant ones are pinned (same object)
New(c, kw0) ==   \* kw0: function from a subset of names to values
  /\ "new" \in Acts /\ Step /\ Len(I) < MaxInst
  /\ \A n \in DOMAIN kw0 : Declared(c, n) /\ ~P[Lookup(c, n)].readonly
  /\ LET \* a keyword whose value is a reference that raises param.Skip when first resolved is not assigned
         \* at all: the parameter is set up exactly as if the keyword had not been given
         kw == [n \in {m \in DOMAIN kw0 : kw0[m].t # "skipref"} |-> kw0[n]]
         needcopy == {n \in AllNames : Declared(c, n) /\ n \notin DOMAIN kw /\ P[Lookup(c, n)].inst}
         \* (at most one instantiate=True parameter in the configurations used)
         ce1 == IF needcopy = {} THEN cells
                ELSE Append(cells, cells[ClassVal(c, CHOOSE n \in needcopy : TRUE).id])
         kwcell == \E n \in DOMAIN kw : kw[n].t = "newcell"
         ce2 == IF kwcell THEN Append(ce1, 0) ELSE ce1
         \* a keyword value for a Selector-like parameter that does not check membership extends the objects:
         \* that is the instance's own business (its own Parameter copy with its own list)
         selkw == {n \in DOMAIN kw : n \in Names /\ Kind[n] \in SelKinds}
         n0 == CHOOSE n \in selkw : TRUE
         src0 == Lookup(c, n0)
         \* (a value that is already among the objects extends nothing: no copy, the instance keeps following the class)
         ext == selkw # {} /\ ~Has(cells[P[src0].ol], kw[n0].v)
         ce3 == IF ~ext THEN ce2 ELSE Append(ce2, Add(cells[P[src0].ol], kw[n0].v))
         vals == [n \in AllNames |->
                    IF ~Declared(c, n) THEN Unset
                    ELSE IF n \in DOMAIN kw THEN (IF kw[n].t = "newcell" THEN Cell(Len(ce2)) ELSE kw[n])
                    ELSE IF P[Lookup(c, n)].inst THEN Cell(Len(ce1))
                    ELSE IF P[Lookup(c, n)].constant THEN ClassVal(c, n)
                    ELSE Unset]
     IN /\ Cardinality(needcopy) <= 1 /\ Cardinality(selkw) <= 1
        /\ cells' = ce3
        /\ P' = IF ~ext THEN P ELSE Append(P, [P[src0] EXCEPT !.ol = Len(ce3)])
        /\ I' = Append(I, [cls |-> c, vals |-> vals,
                           ip |-> [n \in AllNames |-> IF ext /\ n \in selkw THEN Len(P) + 1 ELSE 0], edit |-> 0])
        /\ UNCHANGED <<cdict>>
        /\ Rec("new", [c |-> c, kw |-> kw0], "ok", P', cdict, cells', I',
               (IF EditOpen THEN {"KF_ClassFlagClearedDuringEdit"} ELSE {})
               \cup (IF ext THEN {"KF_CtorKwExtendsClassObjects"} ELSE {}))

\* ---- Selector-like parameters (check_on_set=False): a value outside the objects extends them -------
\* instance-level assignment: on the instance's own Parameter copy (created on demand) and its own list
InstSetSel(i, n, v) ==
  /\ "instset" \in Acts /\ Step /\ i \in 1..Len(I) /\ n \in Names /\ Kind[n] \in SelKinds /\ Declared(I[i].cls, n)
  /\ LET mk == I[i].ip[n] = 0
         cp == InstCopy(Lookup(I[i].cls, n), cells)
         pid == IF mk THEN Len(P) + 1 ELSE I[i].ip[n]
         P1 == IF mk THEN Append(P, cp[1]) ELSE P
         ce1 == IF mk THEN cp[2] ELSE cells
     IN /\ P' = P1
        /\ cells' = [ce1 EXCEPT ![P1[pid].ol] = Add(@, v.v)]
        /\ I' = [I EXCEPT ![i].vals[n] = v, ![i].ip[n] = pid]
        /\ UNCHANGED cdict
        /\ Rec("instset", [i |-> i, n |-> n, v |-> v, route |-> "attr"], "ok", P', cdict, cells', I', {})
\* class-level assignment: the copy-on-write copy of an inherited Parameter is shallow, so it shares the
\* objects list of the Parameter it was copied from; the new value is appended to that list
ClassSetSel(c, n, v) ==
  /\ "classset" \in Acts /\ Step /\ n \in Names /\ Kind[n] \in SelKinds /\ Declared(c, n)
  /\ LET src == Lookup(c, n)
         own == cdict[c][n] # 0
         pid == IF own THEN src ELSE Len(P) + 1
         P1 == IF own THEN P ELSE Append(P, [P[src] EXCEPT !.owner = c])
     IN /\ P' = [P1 EXCEPT ![pid].default = v]
        /\ cdict' = [cdict EXCEPT ![c][n] = pid]
        /\ cells' = [cells EXCEPT ![P[src].ol] = Add(@, v.v)]
        /\ UNCHANGED I
        /\ Rec("classset", [c |-> c, n |-> n, v |-> v], "ok", P', cdict', cells', I,
               IF StaleCopyRisk(c, n) THEN {"KF_StaleInstanceParam"} ELSE {})
\* in-place mutation of a mutable Parameter attribute: `i.param[n].objects.append(tok)` / `c.param[n].objects.append(tok)`
InstObjsAppend(i, n, tok) ==
  /\ "objsappend" \in Acts /\ Step /\ i \in 1..Len(I) /\ n \in Names /\ Kind[n] \in SelKinds /\ Declared(I[i].cls, n)
  /\ LET mk == I[i].ip[n] = 0
         cp == InstCopy(Lookup(I[i].cls, n), cells)
         pid == IF mk THEN Len(P) + 1 ELSE I[i].ip[n]
         P1 == IF mk THEN Append(P, cp[1]) ELSE P
         ce1 == IF mk THEN cp[2] ELSE cells
     IN /\ ~Has(ce1[P1[pid].ol], tok)
        /\ P' = P1 /\ cells' = [ce1 EXCEPT ![P1[pid].ol] = Add(@, tok)]
        /\ I' = [I EXCEPT ![i].ip[n] = pid]
        /\ UNCHANGED cdict
        /\ Rec("instobjs", [i |-> i, n |-> n, tok |-> tok], "ok", P', cdict, cells', I', {})
ClassObjsAppend(c, n, tok) ==
  /\ "objsappend" \in Acts /\ Step /\ n \in Names /\ Kind[n] \in SelKinds /\ Declared(c, n)
  /\ ~Has(cells[P[Lookup(c, n)].ol], tok)
  /\ cells' = [cells EXCEPT ![P[Lookup(c, n)].ol] = Add(@, tok)]
  /\ UNCHANGED <<P, cdict, I>>
  /\ Rec("classobjs", [c |-> c, n |-> n, tok |-> tok], "ok", P, cdict, cells', I, {})
\* `c.param[n].precedence = b` : an attribute of the Parameter that governs c (no copy-on-write here)
ClassMeta(c, n, b) ==
  /\ "classmeta" \in Acts /\ Step /\ Declared(c, n) /\ ~EditOpen
  /\ P' = [P EXCEPT ![Lookup(c, n)].bounds = b]
  /\ UNCHANGED <<cdict, cells, I>>
  /\ Rec("classmeta", [c |-> c, n |-> n, b |-> b], "ok", P', cdict, cells, I, {})

\* instance-level assignment through attribute access or param.update
InstSet(i, n, v, route) ==
  /\ "instset" \in Acts /\ Step /\ i \in 1..Len(I) /\ Declared(I[i].cls, n)
  /\ (n \in Names => Kind[n] \notin SelKinds)
  /\ (v = BadEq => InstVal(i, n).t = "int")
  /\ LET p == P[IParam(i, n)]
         isnew == v.t = "newcell"
         cur == InstVal(i, n)
         val == IF isnew THEN Cell(Len(cells) + 1) ELSE IF v.t = "same" THEN cur ELSE v
         frozen == p.readonly \/ (p.constant /\ I[i].edit = 0)
     IN \* while an edit_constant block is open on some instance, other instances are left alone
        /\ (EditOpen /\ I[i].edit = 0) => ~P[Lookup(I[i].cls, n)].constant
        \* (an assignment to an initialized instance is delegated to its per-instance Parameter, which is
        \*  created on demand -- before the value is looked at, so a rejected assignment creates it too:
        \*  like `i.param[n]`, that shows only in which Parameter later attribute edits reach)
        /\ IF (IsBad(v) /\ ~frozen) \/ (frozen /\ (p.readonly \/ val # cur))
           THEN LET mk == I[i].ip[n] = 0 /\ P[Lookup(I[i].cls, n)].perinst IN
                /\ P' = IF mk THEN Append(P, P[Lookup(I[i].cls, n)]) ELSE P
                /\ I' = [I EXCEPT ![i].ip[n] = IF mk THEN Len(P) + 1 ELSE @]
                /\ UNCHANGED <<cdict, cells>>
                /\ Rec("instset", [i |-> i, n |-> n, v |-> v, route |-> route],
                       IF IsBad(v) THEN "ValueError" ELSE "TypeError", P', cdict, cells, I', {})     \* (validation comes first)
           ELSE LET mk == I[i].ip[n] = 0 /\ P[Lookup(I[i].cls, n)].perinst IN
                /\ P' = IF mk THEN Append(P, P[Lookup(I[i].cls, n)]) ELSE P
                \* (re-assigning the identical object to a constant parameter stores nothing)
                /\ I' = [I EXCEPT ![i].vals[n] = IF frozen THEN @ ELSE val, ![i].ip[n] = IF mk THEN Len(P) + 1 ELSE @]
                /\ cells' = IF isnew THEN Append(cells, 0) ELSE cells
                /\ UNCHANGED cdict
                \* chg: does the value the instance shows change?  (decides whether a changes-only watcher of the instance runs;
                \*  stated for plain integers only -- "free" otherwise)
                /\ Rec("instset", [i |-> i, n |-> n, v |-> v, route |-> route,
                                   chg |-> IF frozen \/ val.t # "int" \/ cur.t # "int" THEN "free" ELSE IF val # cur THEN "yes" ELSE "no",
                                   old |-> cur], "ok", P', cdict, cells', I', {})

\* `i.param[n].bounds = b` : per-instance Parameter attribute
InstMeta(i, n, b) ==
  /\ "instmeta" \in Acts /\ Step /\ i \in 1..Len(I) /\ Declared(I[i].cls, n)
  /\ LET shared == ~P[Lookup(I[i].cls, n)].perinst
         has == I[i].ip[n] # 0
         pid == IF shared THEN Lookup(I[i].cls, n) ELSE IF has THEN I[i].ip[n] ELSE Len(P) + 1
         P1 == IF shared \/ has THEN P ELSE Append(P, InstCopy(Lookup(I[i].cls, n), cells)[1])
     IN /\ P' = [P1 EXCEPT ![pid].bounds = b]
        /\ I' = IF shared THEN I ELSE [I EXCEPT ![i].ip[n] = pid]
        /\ cells' = IF shared \/ has THEN cells ELSE InstCopy(Lookup(I[i].cls, n), cells)[2]
        /\ UNCHANGED <<cdict>>
        /\ Rec("instmeta", [i |-> i, n |-> n, b |-> b], "ok", P', cdict, cells', I',
               IF EditOpen /\ I[i].edit = 0 /\ ~has /\ P[Lookup(I[i].cls, n)].constant
               THEN {"KF_ClassFlagClearedDuringEdit"} ELSE {})

\* `i.param[n].constant = b` : the constant flag of the instance's own Parameter (the class's is untouched)
InstConst(i, n, b) ==
  /\ "instconst" \in Acts /\ Step /\ i \in 1..Len(I) /\ Declared(I[i].cls, n) /\ ~EditOpen
  /\ P[Lookup(I[i].cls, n)].perinst /\ ~P[Lookup(I[i].cls, n)].readonly
  \* (for an instance that never set n, what "the value" of a constant is after a later class-level set is not said)
  /\ I[i].vals[n] # Unset
  /\ LET has == I[i].ip[n] # 0
         pid == IF has THEN I[i].ip[n] ELSE Len(P) + 1
         P1 == IF has THEN P ELSE Append(P, InstCopy(Lookup(I[i].cls, n), cells)[1])
     IN /\ P' = [P1 EXCEPT ![pid].constant = b]
        /\ I' = [I EXCEPT ![i].ip[n] = pid]
        /\ cells' = IF has THEN cells ELSE InstCopy(Lookup(I[i].cls, n), cells)[2]
        /\ UNCHANGED <<cdict>>
        /\ Rec("instconst", [i |-> i, n |-> n, b |-> b], "ok", P', cdict, cells', I', {})

\* two nested `with shared_parameters():` blocks are entered and left (an instance made inside them is thrown away):
\* afterwards instantiate=True defaults are copied per instance again
SharedBlocks ==
  /\ "shared" \in Acts /\ Step /\ ~EditOpen
  /\ UNCHANGED <<P, cdict, cells, I>>
  /\ Rec("sharedblocks", <<>>, "ok", P, cdict, cells, I, {})

\* `i.param.trigger(n)`: watchers run, nothing else changes -- in particular an instance that never set n keeps
\* following the class (known finding: the implementation re-assigns the current value, which pins it)
InstTrigger(i, n) ==
  /\ "trigger" \in Acts /\ Step /\ i \in 1..Len(I) /\ n \in Names /\ Kind[n] = "plain" /\ Declared(I[i].cls, n) /\ ~EditOpen
  /\ LET mk == I[i].ip[n] = 0 /\ P[Lookup(I[i].cls, n)].perinst IN
     /\ P' = IF mk THEN Append(P, P[Lookup(I[i].cls, n)]) ELSE P
     /\ I' = [I EXCEPT ![i].ip[n] = IF mk THEN Len(P) + 1 ELSE @]
  /\ UNCHANGED <<cdict, cells>>
  /\ Rec("insttrigger", [i |-> i, n |-> n], "ok", P', cdict, cells, I',
         IF I[i].vals[n] = Unset THEN {"KF_TriggerPinsValue"} ELSE {})

\* `with i.param.update(n=v): pass`: on exit the previous value is back -- and an instance that never set n keeps
\* following the class (known finding: the restoring update stores the value on the instance)
InstUpdCtx(i, n, v) ==
  /\ "updctx" \in Acts /\ Step /\ i \in 1..Len(I) /\ n \in Names /\ Kind[n] = "plain" /\ Declared(I[i].cls, n) /\ ~EditOpen
  /\ LET mk == I[i].ip[n] = 0 /\ P[Lookup(I[i].cls, n)].perinst IN
     /\ P' = IF mk THEN Append(P, P[Lookup(I[i].cls, n)]) ELSE P
     /\ I' = [I EXCEPT ![i].ip[n] = IF mk THEN Len(P) + 1 ELSE @]
  /\ UNCHANGED <<cdict, cells>>
  /\ Rec("instupdctx", [i |-> i, n |-> n, v |-> v], "ok", P', cdict, cells, I',
         IF I[i].vals[n] = Unset THEN {"KF_UpdateCtxPinsValue"} ELSE {})

\* in-place mutation of the object currently held by instance i (or class c) under name n
MutateInst(i, n) ==
  /\ "mutate" \in Acts /\ Step /\ i \in 1..Len(I) /\ Declared(I[i].cls, n) /\ InstVal(i, n).t = "cell"
  /\ cells' = [cells EXCEPT ![InstVal(i, n).id] = @ + 1]
  /\ UNCHANGED <<P, cdict, I>>
  /\ Rec("mutateinst", [i |-> i, n |-> n], "ok", P, cdict, cells', I, {})
MutateClass(c, n) ==
  /\ "mutate" \in Acts /\ Step /\ Declared(c, n) /\ ClassVal(c, n).t = "cell"
  /\ cells' = [cells EXCEPT ![ClassVal(c, n).id] = @ + 1]
  /\ UNCHANGED <<P, cdict, I>>
  /\ Rec("mutateclass", [c |-> c, n |-> n], "ok", P, cdict, cells', I, {})

\* edit_constant(i): constant parameters of i may be rebound inside; flags as before afterwards
EnterEdit(i) == /\ "edit" \in Acts /\ Step /\ i \in 1..Len(I) /\ (EditOpen => I[i].edit > 0)
                /\ I' = [I EXCEPT ![i].edit = @ + 1]
                /\ UNCHANGED <<P, cdict, cells>>
                /\ Rec("enteredit", [i |-> i], "ok", P, cdict, cells, I', {})
ExitEdit(i, raising) == /\ "edit" \in Acts /\ i \in 1..Len(I) /\ I[i].edit > 0
                        /\ I' = [I EXCEPT ![i].edit = @ - 1]
                        /\ UNCHANGED <<P, cdict, cells, nops>>
                        /\ Rec("exitedit", [i |-> i, raising |-> raising], "ok", P, cdict, cells, I', {})

NewCell == [t |-> "newcell"]
SkipRef == [t |-> "skipref"]
ValsFor(n) == IF n \in Names /\ Kind[n] = "plain" /\ "gen" \in Acts THEN IntVals \cup {BadV, BadEq, NoneVal, GenVal}
              ELSE IF n \in Names /\ Kind[n] \in {"mut_inst", "mut_shared", "const"} THEN {NewCell}
              ELSE IF n \in Names /\ Kind[n] \in {"plain", "noperinst"} THEN IntVals \cup {BadV, BadEq, NoneVal} ELSE IntVals
Kws(c) == {<<>>} \cup UNION {{[x \in {n} |-> v] : v \in (ValsFor(n) \ {BadV, BadEq}) \cup (IF Kind[n] = "mut_inst" /\ "skipref" \in Acts THEN {SkipRef} ELSE {})} :
                                n \in {m \in Names : Declared(c, m) /\ Kind[m] # "readonly"}}

Next ==
  \/ \E c \in CSet : ReadNS(c)
  \/ \E i \in 1..MaxInst, n \in AllNames : InstParam(i, n)
  \/ \E c \in CSet, n \in AllNames : \E v \in ValsFor(n) \cup {[t |-> "same"]} : ClassSet(c, n, v)
  \/ \E c \in CSet, n \in {Extra} \cup {m \in Names : Kind[m] = "plain"} : \E v \in IntVals, r \in {"add", "assign"} : AddParameter(c, n, v, r)
  \/ \E c \in CSet : \E kw \in Kws(c) : New(c, kw)
  \/ \E i \in 1..MaxInst, n \in AllNames : \E v \in ValsFor(n) \cup {[t |-> "same"]} :
        \E r \in {"attr", "update"} : InstSet(i, n, v, r)
  \/ \E i \in 1..MaxInst, n \in AllNames : \E b \in {1, 2} : InstMeta(i, n, b)
  \/ \E i \in 1..MaxInst, n \in Names : \E v \in IntVals : InstSetSel(i, n, v)
  \/ \E c \in CSet, n \in Names : \E v \in IntVals : ClassSetSel(c, n, v)
  \/ \E i \in 1..MaxInst, n \in Names : InstObjsAppend(i, n, 3)
  \/ \E c \in CSet, n \in Names : ClassObjsAppend(c, n, 3)
  \/ \E c \in CSet, n \in AllNames : \E b \in {1, 2} : ClassMeta(c, n, b)
  \/ \E i \in 1..MaxInst, n \in AllNames, b \in BOOLEAN : InstConst(i, n, b)
  \/ SharedBlocks
  \/ \E i \in 1..MaxInst, n \in Names : InstTrigger(i, n)
  \/ \E i \in 1..MaxInst, n \in Names : \E v \in IntVals : InstUpdCtx(i, n, v)
  \/ \E i \in 1..MaxInst, n \in AllNames : MutateInst(i, n)
  \/ \E c \in CSet, n \in AllNames : MutateClass(c, n)
  \/ \E i \in 1..MaxInst : EnterEdit(i) \/ ExitEdit(i, FALSE) \/ ExitEdit(i, TRUE)

Spec == Init /\ [][Next]_vars

\* ---- properties ---------------------------------------------------------------------------
\* C12: an instance-level assignment or Parameter edit changes nothing the classes or other instances see
ObsNow == ObsOf(P, cdict, cells, I)
InstOpsLocal ==
  [][\A i \in 1..Len(I) :
        (Len(I') = Len(I) /\ I'[i] # I[i] /\ cdict' = cdict) =>
           /\ ObsOf(P', cdict', cells', I').classes = ObsNow.classes
           /\ \A j \in 1..Len(I) : (j # i /\ \A n \in AllNames : Declared(I[j].cls, n) => P[Lookup(I[j].cls, n)].perinst)
                                       => ObsOf(P', cdict', cells', I').insts[j] = ObsNow.insts[j]]_vars
\* C12: creating an instance (with or without keyword values) changes nothing the classes or existing instances see
NewLocal ==
  [][Len(I') = Len(I) + 1 =>
        /\ ObsOf(P', cdict', cells', I').classes = ObsNow.classes
        /\ \A j \in 1..Len(I) : ObsOf(P', cdict', cells', I').insts[j] = ObsNow.insts[j]]_vars
\* C12: no per-instance Parameter shares its objects list with a class Parameter or another instance's
ObjsListsPrivate ==
  \A i \in 1..Len(I), n \in Names :
     (I[i].ip[n] # 0 /\ P[I[i].ip[n]].ol # 0) =>
        /\ \A c \in CSet : Declared(c, n) => P[Lookup(c, n)].ol # P[I[i].ip[n]].ol
        /\ \A j \in 1..Len(I) : (j # i /\ I[j].ip[n] # 0) => P[I[j].ip[n]].ol # P[I[i].ip[n]].ol
\* C12: instantiate=True values are private, shared ones are shared by identity, constants are pinned
InstantiatePrivate ==
  \A i \in 1..Len(I), n \in Names :
     (Kind[n] = "mut_inst" /\ Declared(I[i].cls, n) /\ InstVal(i, n).t = "cell") =>
        /\ InstVal(i, n) # ClassVal(I[i].cls, n)
        /\ \A j \in 1..Len(I) : (j # i /\ Declared(I[j].cls, n)) => InstVal(j, n) # InstVal(i, n)
\* C14: the object held by an instance under a parameter declared constant changes only under an open edit block
\* (unless the instance's own Parameter copy was made non-constant)
ConstStable ==
  [][\A i \in 1..Len(I), n \in Names :
        (Kind[n] \in {"const", "constnone", "readonly"} /\ P[IParam(i, n)].constant /\ i <= Len(I') /\ I[i].edit = 0 /\ I'[i].edit = 0) => I'[i].vals[n] = I[i].vals[n]]_vars
ReadonlyNever ==
  [][\A c \in CSet, n \in Names : Kind[n] = "readonly" => ClassVal(c, n)' = ClassVal(c, n)]_vars
TypeOK == nops \in 0..MaxOps /\ Len(I) <= MaxInst

Emit == (RecordHist /\ nops = MaxOps /\ ~EditOpen) => PrintT(<<"BEHAVIOUR", ToJson([steps |-> hist])>>)
=============================================================================
