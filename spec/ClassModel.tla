---------------------------- MODULE ClassModel ----------------------------
(***************************************************************************
 Ownership of parameter values and Parameter objects across a class
 hierarchy and its instances (C12, C13, C14).

 An explicit heap:
   P          Parameter objects (identity = index): default, constant,
              readonly, inst(antiate), perinst, bounds
   cdict[c]   the class's own __dict__ : name -> Parameter id (0 = absent)
   cells      mutable value objects (lists): identity = index, content = an int
   I          instances: class, values (name -> value | unset), per-instance
              Parameter copies ip (name -> id | 0), `initialized`, edit depth
 Values are records: [t |-> "int", v |-> n] or [t |-> "cell", id |-> k].

 The module is declarative where the implementation caches: attribute lookup
 and the `.param` namespace are both *defined* by the MRO walk (Lookup), so
 `NamespaceAgrees` holds by construction in the specification and every read
 of the namespace is an explicit action (reads populate the implementation's
 caches; the replay performs them).  Copy-on-write of inherited Parameters
 (metaclass __setattr__, parameterized.py:4441), lazily created per-instance
 Parameter copies (Parameters.__getitem__), instantiate / constant handling
 in the constructor (_setup_params) and edit_constant are actions.
 ***************************************************************************)
EXTENDS Integers, Sequences, FiniteSets, TLC, Json

CONSTANTS Classes,      \* sequence, root first: <<"A","B","C">>  (a chain)
          NameSeq,      \* sequence of the parameter names declared on the root
          Kind,         \* Kind[n] \in {"plain", "mut_inst", "mut_shared", "const", "readonly", "noperinst"}
          Extra,        \* a name that can be added later with add_parameter
          Acts, MaxOps, MaxInst, RecordHist

VARIABLES P, cdict, cells, I, nops, hist
vars == <<P, cdict, cells, I, nops, hist>>

Names == {NameSeq[i] : i \in 1..Len(NameSeq)}
NameIdx(n) == CHOOSE i \in 1..Len(NameSeq) : NameSeq[i] = n
CSet == {Classes[i] : i \in 1..Len(Classes)}
Idx(c) == CHOOSE i \in 1..Len(Classes) : Classes[i] = c
Mro(c) == [i \in 1..Idx(c) |-> Classes[Idx(c) + 1 - i]]         \* c first, root last
Sub(c) == {Classes[i] : i \in Idx(c)..Len(Classes)}             \* c and its descendants
AllNames == Names \cup {Extra}

IntV(n) == [t |-> "int", v |-> n]
Cell(k) == [t |-> "cell", id |-> k]
Unset == [t |-> "unset"]
IntVals == {IntV(1), IntV(2)}
BadV == IntV(9)     \* outside the declared bounds of a plain parameter

\* ---- lookup: what attribute access and the .param namespace must both resolve to ----------
Declared(c, n) == \E i \in 1..Len(Mro(c)) : cdict[Mro(c)[i]][n] # 0
Holder(c, n) == Mro(c)[CHOOSE i \in 1..Len(Mro(c)) : cdict[Mro(c)[i]][n] # 0 /\ \A j \in 1..i-1 : cdict[Mro(c)[j]][n] = 0]
Lookup(c, n) == cdict[Holder(c, n)][n]
ClassVal(c, n) == P[Lookup(c, n)].default
IParam(i, n) == IF I[i].ip[n] # 0 THEN I[i].ip[n] ELSE Lookup(I[i].cls, n)
InstVal(i, n) == IF I[i].vals[n] # Unset THEN I[i].vals[n] ELSE ClassVal(I[i].cls, n)

NewParam(kind, dflt, owner) ==
  [default |-> dflt, constant |-> kind \in {"const", "constnone", "readonly"}, readonly |-> kind = "readonly",
   inst |-> kind = "mut_inst", perinst |-> kind # "noperinst", bounds |-> 0, owner |-> owner]

\* ---- projection: everything C12 / C13 / C14 talk about ---------------------------------------
ValObs(v) == IF v.t = "cell" THEN [t |-> "cell", id |-> v.id, c |-> cells[v.id]] ELSE v
ObsOf(P2, cd2, ce2, I2) ==   \* evaluated on the primed state by the callers
  [editopen |-> (\E j \in 1..Len(I2) : I2[j].edit > 0),
   classes |-> [c \in CSet |-> [n \in {m \in AllNames : \E k \in 1..Idx(c) : cd2[Classes[k]][m] # 0} |->
       LET h == Classes[CHOOSE k \in 1..Idx(c) : cd2[Classes[k]][n] # 0 /\ \A j \in k+1..Idx(c) : cd2[Classes[j]][n] = 0]
           p == P2[cd2[h][n]]
       IN [val |-> (IF p.default.t = "cell" THEN [t |-> "cell", id |-> p.default.id, c |-> ce2[p.default.id]] ELSE p.default),
           holder |-> h, bounds |-> p.bounds, constant |-> p.constant]]],
   insts |-> [i \in 1..Len(I2) |-> [n \in {m \in AllNames : \E k \in 1..Idx(I2[i].cls) : cd2[Classes[k]][m] # 0} |->
       LET c == I2[i].cls
           h == Classes[CHOOSE k \in 1..Idx(c) : cd2[Classes[k]][n] # 0 /\ \A j \in k+1..Idx(c) : cd2[Classes[j]][n] = 0]
           cp == P2[cd2[h][n]]
           ip == IF I2[i].ip[n] # 0 THEN P2[I2[i].ip[n]] ELSE cp
           v == IF I2[i].vals[n] # Unset THEN I2[i].vals[n] ELSE cp.default
       IN [val |-> (IF v.t = "cell" THEN [t |-> "cell", id |-> v.id, c |-> ce2[v.id]] ELSE v),
           own |-> I2[i].ip[n] # 0, bounds |-> ip.bounds, constant |-> ip.constant]]]]

Init == /\ P = [i \in 1..Len(NameSeq) |->
                  NewParam(Kind[NameSeq[i]], IF Kind[NameSeq[i]] \in {"mut_inst", "mut_shared", "const"} THEN Cell(i)
                           ELSE IF Kind[NameSeq[i]] = "constnone" THEN [t |-> "none"] ELSE IntV(0), Classes[1])]
        /\ cells = [i \in 1..Len(NameSeq) |-> 0]
        /\ cdict = [c \in CSet |-> [n \in AllNames |-> IF c = Classes[1] /\ n \in Names THEN NameIdx(n) ELSE 0]]
        /\ I = <<>> /\ nops = 0
        /\ hist = IF RecordHist
                  THEN <<[act |-> [name |-> "init"], res |-> "ok", obs |-> ObsOf(P, cdict, cells, I), kf |-> {}]>>
                  ELSE <<>>

Rec(name, args, res, P2, cd2, ce2, I2, tags) ==
  hist' = IF RecordHist
          THEN Append(hist, [act |-> [name |-> name] @@ args, res |-> res, obs |-> ObsOf(P2, cd2, ce2, I2), kf |-> tags])
          ELSE hist
Step == nops < MaxOps /\ nops' = nops + 1

EditOpen == \E j \in 1..Len(I) : I[j].edit > 0
\* does some instance of c or a descendant already hold a per-instance copy of n?
StaleCopyRisk(c, n) == \E i \in 1..Len(I) : I[i].cls \in Sub(c) /\ I[i].ip[n] # 0

\* ---- actions ------------------------------------------------------------------------------
\* reads of the namespace: no abstract effect (they populate the implementation's caches)
ReadNS(c) == /\ "readns" \in Acts /\ Step
             /\ UNCHANGED <<P, cdict, cells, I>>
             /\ Rec("readns", [c |-> c], "ok", P, cdict, cells, I, {})

\* `i.param[n]`: creates the per-instance Parameter copy if the Parameter is per_instance
InstParam(i, n) ==
  /\ "instparam" \in Acts /\ Step /\ i \in 1..Len(I) /\ Declared(I[i].cls, n)
  /\ IF I[i].ip[n] = 0 /\ P[Lookup(I[i].cls, n)].perinst
     THEN /\ P' = Append(P, P[Lookup(I[i].cls, n)])
          /\ I' = [I EXCEPT ![i].ip[n] = Len(P) + 1]
     ELSE UNCHANGED <<P, I>>
  /\ UNCHANGED <<cdict, cells>>
  /\ Rec("instparam", [i |-> i, n |-> n], "ok", P', cdict, cells, I',
         IF EditOpen /\ I[i].edit = 0 /\ I[i].ip[n] = 0 /\ P[Lookup(I[i].cls, n)].constant
         THEN {"KF_ClassFlagClearedDuringEdit"} ELSE {})

\* class-level assignment `c.n = v` : copy-on-write of an inherited Parameter, then set its default
ClassSet(c, n, v) ==
  /\ "classset" \in Acts /\ Step /\ Declared(c, n)
  /\ LET src == Lookup(c, n) IN
     IF v = BadV
     THEN \* rejected by validation (out of bounds): nothing changes
          /\ UNCHANGED <<P, cdict, cells, I>>
          /\ Rec("classset", [c |-> c, n |-> n, v |-> v], "ValueError", P, cdict, cells, I, {})
     ELSE IF P[src].readonly
     THEN /\ UNCHANGED <<P, cdict, cells, I>>
          \* (the implementation copies the inherited Parameter into c before the assignment is refused)
          /\ Rec("classset", [c |-> c, n |-> n, v |-> v], "TypeError", P, cdict, cells, I,
                 IF EditOpen /\ cdict[c][n] = 0 THEN {"KF_ClassFlagClearedDuringEdit"} ELSE {})
     ELSE LET own == cdict[c][n] # 0
              pid == IF own THEN src ELSE Len(P) + 1
              isnew == v.t = "newcell"
              val == IF isnew THEN Cell(Len(cells) + 1) ELSE v
              P1 == IF own THEN P ELSE Append(P, [P[src] EXCEPT !.owner = c])
          IN /\ P' = [P1 EXCEPT ![pid].default = val]
             /\ cdict' = [cdict EXCEPT ![c][n] = pid]
             /\ cells' = IF isnew THEN Append(cells, 0) ELSE cells
             /\ UNCHANGED I
             /\ Rec("classset", [c |-> c, n |-> n, v |-> v], "ok", P', cdict', cells', I,
                    (IF StaleCopyRisk(c, n) THEN {"KF_StaleInstanceParam"} ELSE {})
                    \cup (IF EditOpen /\ ~own /\ P[src].constant THEN {"KF_ClassFlagClearedDuringEdit"} ELSE {}))

\* `c.param.add_parameter(n, Parameter(default=v))`
AddParameter(c, n, v) ==
  /\ "addparam" \in Acts /\ Step
  /\ (n \in Names => Kind[n] = "plain")        \* overriding a declaration: plain parameters only
  /\ P' = Append(P, NewParam("plain", v, c))
  /\ cdict' = [cdict EXCEPT ![c][n] = Len(P) + 1]
  /\ UNCHANGED <<cells, I>>
  /\ Rec("addparam", [c |-> c, n |-> n, v |-> v], "ok", P', cdict', cells, I,
         (IF StaleCopyRisk(c, n) THEN {"KF_StaleInstanceParam"} ELSE {}))

\* constructor: instantiate=True values are deep-copied, constant ones are pinned (same object)
New(c, kw) ==   \* kw: function from a subset of names to values
  /\ "new" \in Acts /\ Step /\ Len(I) < MaxInst
  /\ \A n \in DOMAIN kw : Declared(c, n) /\ ~P[Lookup(c, n)].readonly
  /\ LET needcopy == {n \in AllNames : Declared(c, n) /\ n \notin DOMAIN kw /\ P[Lookup(c, n)].inst}
         \* (at most one instantiate=True parameter in the configurations used)
         ce1 == IF needcopy = {} THEN cells
                ELSE Append(cells, cells[ClassVal(c, CHOOSE n \in needcopy : TRUE).id])
         kwcell == \E n \in DOMAIN kw : kw[n].t = "newcell"
         ce2 == IF kwcell THEN Append(ce1, 0) ELSE ce1
         vals == [n \in AllNames |->
                    IF ~Declared(c, n) THEN Unset
                    ELSE IF n \in DOMAIN kw THEN (IF kw[n].t = "newcell" THEN Cell(Len(ce2)) ELSE kw[n])
                    ELSE IF P[Lookup(c, n)].inst THEN Cell(Len(ce1))
                    ELSE IF P[Lookup(c, n)].constant THEN ClassVal(c, n)
                    ELSE Unset]
     IN /\ Cardinality(needcopy) <= 1
        /\ cells' = ce2
        /\ I' = Append(I, [cls |-> c, vals |-> vals, ip |-> [n \in AllNames |-> 0], edit |-> 0])
        /\ UNCHANGED <<P, cdict>>
        /\ Rec("new", [c |-> c, kw |-> kw], "ok", P, cdict, cells', I',
               IF EditOpen THEN {"KF_ClassFlagClearedDuringEdit"} ELSE {})

\* instance-level assignment through attribute access or param.update
InstSet(i, n, v, route) ==
  /\ "instset" \in Acts /\ Step /\ i \in 1..Len(I) /\ Declared(I[i].cls, n)
  /\ LET p == P[IParam(i, n)]
         isnew == v.t = "newcell"
         cur == InstVal(i, n)
         val == IF isnew THEN Cell(Len(cells) + 1) ELSE IF v.t = "same" THEN cur ELSE v
         frozen == p.readonly \/ (p.constant /\ I[i].edit = 0)
     IN \* while an edit_constant block is open on some instance, other instances are left alone
        /\ (EditOpen /\ I[i].edit = 0) => ~P[Lookup(I[i].cls, n)].constant
        /\ IF v = BadV /\ ~frozen
           THEN /\ UNCHANGED <<P, cdict, cells, I>>
                /\ Rec("instset", [i |-> i, n |-> n, v |-> v, route |-> route], "ValueError", P, cdict, cells, I, {})
           ELSE IF frozen /\ (p.readonly \/ val # cur)
           THEN /\ UNCHANGED <<P, cdict, cells, I>>
                /\ Rec("instset", [i |-> i, n |-> n, v |-> v, route |-> route], "TypeError", P, cdict, cells, I, {})
           ELSE \* (an assignment to an initialized instance is delegated to its per-instance Parameter,
                \*  which is created on demand)
                LET mk == I[i].ip[n] = 0 /\ P[Lookup(I[i].cls, n)].perinst IN
                /\ P' = IF mk THEN Append(P, P[Lookup(I[i].cls, n)]) ELSE P
                /\ I' = [I EXCEPT ![i].vals[n] = val, ![i].ip[n] = IF mk THEN Len(P) + 1 ELSE @]
                /\ cells' = IF isnew THEN Append(cells, 0) ELSE cells
                /\ UNCHANGED cdict
                /\ Rec("instset", [i |-> i, n |-> n, v |-> v, route |-> route], "ok", P', cdict, cells', I', {})

\* `i.param[n].bounds = b` : per-instance Parameter attribute
InstMeta(i, n, b) ==
  /\ "instmeta" \in Acts /\ Step /\ i \in 1..Len(I) /\ Declared(I[i].cls, n)
  /\ LET shared == ~P[Lookup(I[i].cls, n)].perinst
         has == I[i].ip[n] # 0
         pid == IF shared THEN Lookup(I[i].cls, n) ELSE IF has THEN I[i].ip[n] ELSE Len(P) + 1
         P1 == IF shared \/ has THEN P ELSE Append(P, P[Lookup(I[i].cls, n)])
     IN /\ P' = [P1 EXCEPT ![pid].bounds = b]
        /\ I' = IF shared THEN I ELSE [I EXCEPT ![i].ip[n] = pid]
        /\ UNCHANGED <<cdict, cells>>
        /\ Rec("instmeta", [i |-> i, n |-> n, b |-> b], "ok", P', cdict, cells, I',
               IF EditOpen /\ I[i].edit = 0 /\ ~has /\ P[Lookup(I[i].cls, n)].constant
               THEN {"KF_ClassFlagClearedDuringEdit"} ELSE {})

\* in-place mutation of the object currently held by instance i (or class c) under name n
MutateInst(i, n) ==
  /\ "mutate" \in Acts /\ Step /\ i \in 1..Len(I) /\ Declared(I[i].cls, n) /\ InstVal(i, n).t = "cell"
  /\ cells' = [cells EXCEPT ![InstVal(i, n).id] = @ + 1]
  /\ UNCHANGED <<P, cdict, I>>
  /\ Rec("mutateinst", [i |-> i, n |-> n], "ok", P, cdict, cells', I, {})
MutateClass(c, n) ==
  /\ "mutate" \in Acts /\ Step /\ Declared(c, n) /\ ClassVal(c, n).t = "cell"
  /\ cells' = [cells EXCEPT ![ClassVal(c, n).id] = @ + 1]
  /\ UNCHANGED <<P, cdict, I>>
  /\ Rec("mutateclass", [c |-> c, n |-> n], "ok", P, cdict, cells', I, {})

\* edit_constant(i): constant parameters of i may be rebound inside; flags as before afterwards
EnterEdit(i) == /\ "edit" \in Acts /\ Step /\ i \in 1..Len(I) /\ (EditOpen => I[i].edit > 0)
                /\ I' = [I EXCEPT ![i].edit = @ + 1]
                /\ UNCHANGED <<P, cdict, cells>>
                /\ Rec("enteredit", [i |-> i], "ok", P, cdict, cells, I', {})
ExitEdit(i, raising) == /\ "edit" \in Acts /\ i \in 1..Len(I) /\ I[i].edit > 0
                        /\ I' = [I EXCEPT ![i].edit = @ - 1]
                        /\ UNCHANGED <<P, cdict, cells, nops>>
                        /\ Rec("exitedit", [i |-> i, raising |-> raising], "ok", P, cdict, cells, I', {})

NewCell == [t |-> "newcell"]
ValsFor(n) == IF n \in Names /\ Kind[n] \in {"mut_inst", "mut_shared", "const"} THEN {NewCell}
              ELSE IF n \in Names /\ Kind[n] \in {"plain", "noperinst"} THEN IntVals \cup {BadV} ELSE IntVals
Kws(c) == {<<>>} \cup UNION {{[x \in {n} |-> v] : v \in ValsFor(n) \ {BadV}} : n \in {m \in Names : Declared(c, m) /\ Kind[m] # "readonly"}}

Next ==
  \/ \E c \in CSet : ReadNS(c)
  \/ \E i \in 1..MaxInst, n \in AllNames : InstParam(i, n)
  \/ \E c \in CSet, n \in AllNames : \E v \in ValsFor(n) : ClassSet(c, n, v)
  \/ \E c \in CSet, n \in {Extra} \cup {m \in Names : Kind[m] = "plain"} : \E v \in IntVals : AddParameter(c, n, v)
  \/ \E c \in CSet : \E kw \in Kws(c) : New(c, kw)
  \/ \E i \in 1..MaxInst, n \in AllNames : \E v \in ValsFor(n) \cup {[t |-> "same"]} :
        \E r \in {"attr", "update"} : InstSet(i, n, v, r)
  \/ \E i \in 1..MaxInst, n \in AllNames : \E b \in {1, 2} : InstMeta(i, n, b)
  \/ \E i \in 1..MaxInst, n \in AllNames : MutateInst(i, n)
  \/ \E c \in CSet, n \in AllNames : MutateClass(c, n)
  \/ \E i \in 1..MaxInst : EnterEdit(i) \/ ExitEdit(i, FALSE) \/ ExitEdit(i, TRUE)

Spec == Init /\ [][Next]_vars

\* ---- properties ---------------------------------------------------------------------------
\* C12: an instance-level assignment or Parameter edit changes nothing the classes or other instances see
ObsNow == ObsOf(P, cdict, cells, I)
InstOpsLocal ==
  [][\A i \in 1..Len(I) :
        (Len(I') = Len(I) /\ I'[i] # I[i] /\ cdict' = cdict /\ cells' = cells) =>
           /\ ObsOf(P', cdict', cells', I').classes = ObsNow.classes
           /\ \A j \in 1..Len(I) : (j # i /\ \A n \in AllNames : Declared(I[j].cls, n) => P[Lookup(I[j].cls, n)].perinst)
                                       => ObsOf(P', cdict', cells', I').insts[j] = ObsNow.insts[j]]_vars
\* C12: instantiate=True values are private, shared ones are shared by identity, constants are pinned
InstantiatePrivate ==
  \A i \in 1..Len(I), n \in Names :
     (Kind[n] = "mut_inst" /\ Declared(I[i].cls, n) /\ InstVal(i, n).t = "cell") =>
        /\ InstVal(i, n) # ClassVal(I[i].cls, n)
        /\ \A j \in 1..Len(I) : (j # i /\ Declared(I[j].cls, n)) => InstVal(j, n) # InstVal(i, n)
\* C14: the object held by a constant parameter of an instance changes only under an open edit block
ConstStable ==
  [][\A i \in 1..Len(I), n \in Names :
        (Kind[n] \in {"const", "constnone", "readonly"} /\ i <= Len(I') /\ I[i].edit = 0 /\ I'[i].edit = 0) => I'[i].vals[n] = I[i].vals[n]]_vars
ReadonlyNever ==
  [][\A c \in CSet, n \in Names : Kind[n] = "readonly" => ClassVal(c, n)' = ClassVal(c, n)]_vars
TypeOK == nops \in 0..MaxOps /\ Len(I) <= MaxInst

Emit == (RecordHist /\ nops = MaxOps /\ ~EditOpen) => PrintT(<<"BEHAVIOUR", ToJson([steps |-> hist])>>)
=============================================================================
