CONSTANTS
 Types <- TAll
 MaxOps = 2
 RecordHist = FALSE
INIT Init
NEXT Next
CHECK_DEADLOCK FALSE
INVARIANT StoredValid
INVARIANT Boundary
INVARIANT NaNOutside
INVARIANT NaNOutsideRange
INVARIANT NoneIffAllowed
