---------------------------- MODULE DependsCls ----------------------------
(***************************************************************************
 C06: methods decorated with param.depends(..., watch=True) over a class
 hierarchy.

 A hierarchy shape (chain A<-B<-C, diamond D(B,C) over A), and per class and
 per method name (m1, m2) one of: absent, an undecorated definition, or a
 decorated one [deps, on_init, queued] where deps is a set of dependency
 specs: "x", "y" (parameter values), "x:bounds" (a Parameter attribute) or
 "m2" (another method).

 Intended semantics (what the property states):
   * the definition that counts for class c is the nearest one in c's MRO
     (an undecorated override switches automatic invocation off);
   * Deps(c, m) follows the *instance's class's* resolution, also through
     method names -- as param.method_dependencies() reports it;
   * a method is invoked exactly once for each assignment / update / batch
     that changes at least one of its dependencies, never otherwise;
     on_init adds exactly one call at construction.

 A behaviour is: choose the hierarchy, the declarations and the class that is
 instantiated; then run a fixed probe program that exercises every kind of
 change (same-value set, changing set, attribute change, update and batches
 that change one / several / no dependencies).
 ***************************************************************************)
EXTENDS Integers, Sequences, FiniteSets, TLC, Json

CONSTANTS Shapes, M1Decls, M2Decls, RootM1, RootM2, RecordHist

Absent == [k |-> "absent"]
Undec == [k |-> "undec"]
\* sets: the method body assigns y := 1 and then y := 2 (a cascade of two assignments, each dispatched on its own);
\* only used for m1 with dependencies that exclude y
Dec(deps, oninit, queued) == [k |-> "dec", deps |-> deps, oninit |-> oninit, queued |-> queued, sets |-> FALSE]
DecS(deps, oninit) == [k |-> "dec", deps |-> deps, oninit |-> oninit, queued |-> FALSE, sets |-> TRUE]

Classes(sh) == IF sh = "chain" THEN <<"A", "B", "C">> ELSE <<"A", "B", "C", "D">>
Mro(sh, c) ==       \* c first
  CASE c = "A" -> <<"A">>
    [] c = "B" -> <<"B", "A">>
    [] c = "C" -> IF sh = "chain" THEN <<"C", "B", "A">> ELSE <<"C", "A">>
    [] c = "D" -> <<"D", "B", "C", "A">>
ClsSet(sh) == {Classes(sh)[i] : i \in 1..Len(Classes(sh))}

\* the probe program: operations on one instance whose x = y = 0, bounds = b0 initially
Program == <<
  [op |-> "set", items |-> <<<<"x", 1>>>>],                      \* x: 0 -> 1
  [op |-> "set", items |-> <<<<"x", 1>>>>],                      \* same value
  [op |-> "set", items |-> <<<<"y", 1>>>>],
  [op |-> "set", items |-> <<<<"bounds", 1>>>>],                 \* p.param.x.bounds = ...
  [op |-> "update", items |-> <<<<"x", 0>>, <<"y", 0>>>>],       \* both change
  [op |-> "update", items |-> <<<<"x", 0>>, <<"y", 1>>>>],       \* only y changes
  [op |-> "batch", items |-> <<<<"x", 1>>, <<"x", 0>>, <<"y", 0>>>>],   \* x changes twice, y once
  [op |-> "batch", items |-> <<<<"x", 0>>, <<"y", 0>>>>],        \* nothing changes
  [op |-> "batch", items |-> <<<<"x", 1>>, <<"bounds", 2>>>>],   \* a value and an attribute
  [op |-> "set", items |-> <<<<"bounds", 2>>>>],                 \* same attribute value
  [op |-> "batchraise", items |-> <<<<"x", 0>>>>],               \* the batch body assigns, then an exception escapes it
  [op |-> "set", items |-> <<<<"x", 1>>>>]                       \* ... after which dispatch is immediate again
>>

VARIABLES shape, decl, icls, pc, val, hist
vars == <<shape, decl, icls, pc, val, hist>>

\* ---- resolution ------------------------------------------------------------------------
Eff(c, m) ==   \* the definition of method m that class c sees
  LET mro == Mro(shape, c)
      idx == {i \in 1..Len(mro) : decl[mro[i]][m] # Absent}
  IN IF idx = {} THEN Absent ELSE decl[mro[CHOOSE i \in idx : \A j \in idx : i <= j]][m]

Watched(c, m) == Eff(c, m).k = "dec"
\* parameter-level dependencies of method m as class c resolves them (method names expanded)
Deps(c, m) ==
  IF ~Watched(c, m) THEN {}
  ELSE (Eff(c, m).deps \ {"m2"}) \cup
       (IF "m2" \in Eff(c, m).deps /\ m = "m1" /\ Watched(c, "m2") THEN Eff(c, "m2").deps \ {"m2"} ELSE {})

Setter(c) == Watched(c, "m1") /\ Eff(c, "m1").sets

\* ---- what is registered for class c: the dependencies in force and the on_init flag -----------
\* (the implementation used to copy the nearest ancestor's registration as resolved for that
\*  ancestor; repaired in the repository -- see known_findings.json, "fixed: property=C06")
NoReg == [deps |-> {}, oninit |-> FALSE]
IntendedReg(c, m) == IF Watched(c, m) THEN [deps |-> Deps(c, m), oninit |-> Eff(c, m).oninit] ELSE NoReg
AsBuiltReg(c, m) == IntendedReg(c, m)
StaleReg(c) == FALSE

\* ---- which dependencies an operation changes -----------------------------------------------
RECURSIVE Apply(_, _)
Apply(v, items) == IF items = <<>> THEN v ELSE Apply([v EXCEPT ![Head(items)[1]] = Head(items)[2]], Tail(items))
\* a name counts as changed by the operation if some assignment in it changed it (param judges each
\* assignment against the value at that moment)
RECURSIVE ChangedIn(_, _)
ChangedIn(v, items) ==
  IF items = <<>> THEN {}
  ELSE (IF v[Head(items)[1]] # Head(items)[2] THEN {Head(items)[1]} ELSE {})
       \cup ChangedIn([v EXCEPT ![Head(items)[1]] = Head(items)[2]], Tail(items))
SpecOf(n) == IF n = "bounds" THEN "x:bounds" ELSE n

\* the implementation installs one watcher per (object, kind of dependency): a batch that changes a
\* value dependency and an attribute dependency of the same method invokes it once per watcher
Groups(deps) == {g \in {{"x", "y"}, {"x:bounds"}} : g \cap deps # {}}

M1All == M1Decls \cup {Absent, Undec}
M2All == M2Decls \cup {Absent, Undec}
Init == /\ shape \in Shapes
        /\ \E a1 \in RootM1, a2 \in RootM2, b1 \in M1All, b2 \in M2All, c1 \in M1All, c2 \in M2All,
              d1 \in {Absent, Undec} \cup RootM1, d2 \in {Absent} \cup RootM2 :
              /\ (shape = "chain" => d1 = Absent /\ d2 = Absent)
              /\ decl = IF shape = "chain"
                        THEN [A |-> [m1 |-> a1, m2 |-> a2], B |-> [m1 |-> b1, m2 |-> b2], C |-> [m1 |-> c1, m2 |-> c2]]
                        ELSE [A |-> [m1 |-> a1, m2 |-> a2], B |-> [m1 |-> b1, m2 |-> b2], C |-> [m1 |-> c1, m2 |-> c2],
                              D |-> [m1 |-> d1, m2 |-> d2]]
        /\ icls \in (IF shape = "chain" THEN {"B", "C"} ELSE {"D"})
        \* a method named as a dependency must be decorated wherever it is resolved (an undecorated
        \* dependency means "depends on everything": outside the domain)
        /\ \A c \in ClsSet(shape) : (Watched(c, "m1") /\ "m2" \in Eff(c, "m1").deps) => Watched(c, "m2")
        \* a cascading m1 does not depend on y (directly or through m2): no cycles
        /\ \A c \in ClsSet(shape) : Setter(c) => "y" \notin Deps(c, "m1")
        /\ pc = 0
        /\ val = [x |-> 0, y |-> 0, bounds |-> 0]
        /\ hist = <<>>

\* the cascade: when m1 runs and its body assigns y := 1, the methods depending on y run once more
\* (how many of the two assignments y := 1; y := 2 change y: the second always does)
CascadeM2(c, m1runs, y) == IF m1runs /\ Setter(c) /\ "y" \in Deps(c, "m2") THEN (IF y # 1 THEN 2 ELSE 1) ELSE 0
InitCalls(c) ==
  LET m1runs == Watched(c, "m1") /\ Eff(c, "m1").oninit IN
  [m1 |-> IF m1runs THEN 1 ELSE 0,
   m2 |-> (IF Watched(c, "m2") /\ Eff(c, "m2").oninit THEN 1 ELSE 0) + CascadeM2(c, m1runs, 0)]
InitY(c) == IF Watched(c, "m1") /\ Eff(c, "m1").oninit /\ Setter(c) THEN 2 ELSE 0

InitRec == [a |-> "init", shape |-> shape, decl |-> decl, icls |-> icls,
            mdeps |-> [m \in {"m1", "m2"} |-> Deps(icls, m)],
            calls |-> InitCalls(icls), setter |-> Setter(icls),
            asbuilt |-> InitCalls(icls),
            val |-> [x |-> 0, y |-> InitY(icls), bounds |-> 0],
            kf |-> {}]

Step ==
  /\ pc < Len(Program)
  /\ pc' = pc + 1
  /\ LET o == Program[pc + 1]
         v0 == IF pc = 0 THEN [val EXCEPT !.y = InitY(icls)] ELSE val
         after == Apply(v0, o.items)
         inv == {m \in {"m1", "m2"} : Deps(icls, m) \cap {SpecOf(n) : n \in ChangedIn(v0, o.items)} # {}}
         casc == CascadeM2(icls, "m1" \in inv, after.y)
         after2 == IF "m1" \in inv /\ Setter(icls) THEN [after EXCEPT !.y = 2] ELSE after
         calls == [m1 |-> IF "m1" \in inv THEN 1 ELSE 0,
                   m2 |-> (IF "m2" \in inv THEN 1 ELSE 0) + casc]
         mixed == {m \in {"m1", "m2"} :
                     Cardinality({g \in Groups(Deps(icls, m)) :
                                     g \cap Deps(icls, m) \cap {SpecOf(n) : n \in ChangedIn(v0, o.items)} # {}}) > 1}
     IN
     /\ val' = after2
     /\ hist' = IF RecordHist
                THEN Append(IF pc = 0 THEN <<InitRec>> ELSE hist,
                            [a |-> o.op, items |-> o.items, calls |-> calls, val |-> after2, setter |-> Setter(icls),
                             asbuilt |-> [m \in {"m1", "m2"} |-> calls[m] + (IF m \in mixed THEN 1 ELSE 0)],
                             kf |-> IF mixed # {} THEN {"KF_MixedWhatBatch"} ELSE {}])
                ELSE hist
  /\ UNCHANGED <<shape, decl, icls>>

Next == Step
Spec == Init /\ [][Next]_vars

\* ---- properties on the specification ---------------------------------------------------------
\* an undecorated (or absent) override is never invoked automatically
UndecSilent == \A m \in {"m1", "m2"} : ~Watched(icls, m) => Deps(icls, m) = {}
\* an override replaces the inherited registration: the dependencies in force are those of the
\* nearest definition only
OverrideReplaces ==
  \A m \in {"m1", "m2"} : Watched(icls, m) => Deps(icls, m) \subseteq
       (Eff(icls, m).deps \cup (IF Watched(icls, "m2") THEN Eff(icls, "m2").deps ELSE {}))

Emit == (RecordHist /\ pc = Len(Program)) => PrintT(<<"BEHAVIOUR", ToJson([steps |-> hist])>>)
=============================================================================
