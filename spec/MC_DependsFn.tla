---- MODULE MC_DependsFn ----
EXTENDS DependsFn
Dp(o, p, kw) == [o |-> o, p |-> p, kw |-> kw]
\* owners consecutively, interleaved, the same owner twice non-consecutively, keyword dependencies
DL == { <<Dp(1, "x", FALSE)>>,
        <<Dp(1, "x", FALSE), Dp(1, "y", FALSE)>>,
        <<Dp(1, "x", FALSE), Dp(2, "x", FALSE)>>,
        <<Dp(1, "x", FALSE), Dp(2, "x", FALSE), Dp(1, "y", FALSE)>>,
        <<Dp(2, "y", FALSE), Dp(1, "y", FALSE), Dp(2, "x", FALSE), Dp(1, "x", FALSE)>>,
        <<Dp(1, "x", FALSE), Dp(1, "y", TRUE)>>,
        <<Dp(1, "x", FALSE), Dp(2, "y", TRUE), Dp(1, "y", TRUE)>>,
        <<Dp(2, "x", TRUE), Dp(1, "x", TRUE), Dp(2, "y", TRUE)>> }
====
