---------------------------- MODULE DependsChain ----------------------------
(***************************************************************************
 C07 for paths of depth three with a different parameter name at every level:
 depends('a.b.d.x' [, 'a.b.d.y'], watch=True) on a Top object, where
   Top.a holds a Mid1 (or None), Mid1.b holds a Mid2 (or None),
   Mid2.d holds a Leaf (or None), Leaf has x and y.
 Same verdict as DependsPath: the method runs exactly once when the value
 reached through the current path changed (resolving before and after), never
 for objects off the path, unconstrained when the path starts / stops
 resolving or is rearranged while unresolved; objects off the current path
 carry no watcher of the parent.
 ***************************************************************************)
EXTENDS Integers, Sequences, FiniteSets, TLC, Json
CONSTANTS M1, M2, Leaves, TwoLeaves, MaxOps, RecordHist
VARIABLES ta, m1b, m2d, leaf, nops, hist
vars == <<ta, m1b, m2d, leaf, nops, hist>>
Fields == IF TwoLeaves THEN {"x", "y"} ELSE {"x"}
Chain(a, b1, d2) == LET m == IF a = 0 THEN 0 ELSE b1[a] l == IF m = 0 THEN 0 ELSE d2[m] IN <<a, m, l>>
Unres == -1
PathVal(a, b1, d2, lf, f) == LET c == Chain(a, b1, d2) IN IF c[3] = 0 THEN Unres ELSE lf[c[3]][f]
OnPath(a, b1, d2) == LET c == Chain(a, b1, d2) IN
  (IF c[1] # 0 THEN {<<"m1", c[1]>>} ELSE {}) \cup (IF c[2] # 0 THEN {<<"m2", c[2]>>} ELSE {}) \cup (IF c[3] # 0 THEN {<<"leaf", c[3]>>} ELSE {})
Init == /\ ta \in M1 \cup {0} /\ m1b \in [M1 -> M2 \cup {0}] /\ m2d \in [M2 -> Leaves \cup {0}]
        /\ leaf \in [Leaves -> [x : {0, 1}, y : {0}]] /\ nops = 0 /\ hist = <<>>
Verdict(a2, b2, d2, lf2) ==
  LET st == [f \in Fields |->
               LET b == PathVal(ta, m1b, m2d, leaf, f) n == PathVal(a2, b2, d2, lf2, f) IN
               IF b = Unres /\ n = Unres THEN (IF Chain(ta, m1b, m2d) = Chain(a2, b2, d2) THEN "same" ELSE "free")
               ELSE IF b = Unres \/ n = Unres THEN "free" ELSE IF b # n THEN "changed" ELSE "same"]
  IN IF \E f \in Fields : st[f] = "changed" THEN "once" ELSE IF \E f \in Fields : st[f] = "free" THEN "free" ELSE "never"
Rec(name, args, a2, b2, d2, lf2) ==
  hist' = IF RecordHist
          THEN Append(IF hist = <<>> THEN <<[act |-> [name |-> "init"], two |-> TwoLeaves, ta |-> ta, m1b |-> m1b, m2d |-> m2d, leaf |-> leaf,
                                            onpath |-> OnPath(ta, m1b, m2d)]>> ELSE hist,
                      [act |-> [name |-> name] @@ args, verdict |-> Verdict(a2, b2, d2, lf2), onpath |-> OnPath(a2, b2, d2)])
          ELSE hist
Step == nops < MaxOps /\ nops' = nops + 1
SetA(v) == /\ Step /\ v \in M1 \cup {0} /\ v # ta /\ ta' = v /\ UNCHANGED <<m1b, m2d, leaf>> /\ Rec("seta", [v |-> v], v, m1b, m2d, leaf)
SetB(m, v) == /\ Step /\ m \in M1 /\ v \in M2 \cup {0} /\ v # m1b[m] /\ m1b' = [m1b EXCEPT ![m] = v] /\ UNCHANGED <<ta, m2d, leaf>>
              /\ Rec("setb", [m |-> m, v |-> v], ta, m1b', m2d, leaf)
SetD(m, v) == /\ Step /\ m \in M2 /\ v \in Leaves \cup {0} /\ v # m2d[m] /\ m2d' = [m2d EXCEPT ![m] = v] /\ UNCHANGED <<ta, m1b, leaf>>
              /\ Rec("setd", [m |-> m, v |-> v], ta, m1b, m2d', leaf)
SetLeaf(l, f, v) == /\ Step /\ l \in Leaves /\ leaf[l][f] # v /\ leaf' = [leaf EXCEPT ![l][f] = v] /\ UNCHANGED <<ta, m1b, m2d>>
                    /\ Rec("setleaf", [l |-> l, f |-> f, v |-> v], ta, m1b, m2d, leaf')
Next == \/ \E v \in M1 \cup {0} : SetA(v)
        \/ \E m \in M1, v \in M2 \cup {0} : SetB(m, v)
        \/ \E m \in M2, v \in Leaves \cup {0} : SetD(m, v)
        \/ \E l \in Leaves, f \in {"x", "y"}, v \in {0, 1} : SetLeaf(l, f, v)
Spec == Init /\ [][Next]_vars
DetachedSilent ==
  [][\A l \in Leaves : (leaf'[l] # leaf[l] /\ <<"leaf", l>> \notin OnPath(ta, m1b, m2d)) => Verdict(ta', m1b', m2d', leaf') = "never"]_vars
TypeOK == nops \in 0..MaxOps
Emit == (RecordHist /\ nops = MaxOps) => PrintT(<<"BEHAVIOUR", ToJson([steps |-> hist])>>)
=============================================================================
