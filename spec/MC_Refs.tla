---- MODULE MC_Refs ----
EXTENDS Refs
KAll == {"param", "paramw", "bind1", "meth", "bind2", "rx", "nested", "const"}
KNoK == KAll \ {"const"}
KClamp == {"param", "bind1", "rx", "meth"}
KBasic == {"param", "bind1", "nested"}
AUpd == {"source", "updctx", "ref"}
AAll == {"source", "ref", "plain", "updctx"}
====
