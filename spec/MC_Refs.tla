---- MODULE MC_Refs ----
EXTENDS Refs
KAll == {"param", "paramw", "bind1", "meth", "bind2", "rx", "nested", "nestedd", "nestedt", "nestedb", "nested2", "const"}
KNoK == {"param", "paramw", "bind1", "meth", "bind2", "rx", "nested", "nestedd"}
KProp == {"param", "paramw", "bind1", "bind2", "rx", "nested", "nestedb", "const"}
KRo == {"param", "bind1", "rx", "nested", "const", "ro"}        \* k is readonly
KClamp == {"param", "bind1", "rx", "meth"}
KBasic == {"param", "bind1", "nested"}
AUpd == {"source", "updctx", "ref"}
AAll == {"source", "ref", "plain", "updctx", "trigger"}
====
