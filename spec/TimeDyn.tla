------------------------------ MODULE TimeDyn ------------------------------
(***************************************************************************
 C19: time-dependent dynamic parameter values.

 A global time (param.Dynamic.time_fn, a param.Time object used as a
 callable, with += / -=, and as a nestable context manager) and a set of
 slots, each one Dynamic parameter of one instance holding a time-dependent
 number generator with a name and a seed.  Two slots may hold distinct
 generator objects with the same name and seed.

   time        current time          stack   saved times of open contexts
   last[s]     value cached by the generator of slot s ("none" before the
               first read), a term <<name-seed, t>>: the value is a pure
               function of the generator's identity (name, seed) and time
   saved[s]    state saved by _state_push on the slot's instance
   ptime[s]    the time at which last[s] was produced (NoT before the first
               production): the cache key.  A read at time ptime[s] returns the
               cached value and produces nothing.
   cnt[s]      number of productions so far.  A slot whose GenOf is "K" holds a
               plain counter callable (not itself a function of time): the k-th
               production returns k, so a read that wrongly produces again at an
               unchanged time is visible.  _state_pop restores last and ptime,
               not the counter's own count.

 Read(s) returns the term of the current time whatever was read before;
 Inspect(s) returns the cached term without producing a new one; Force(s)
 produces the value of the current time again; leaving a time context
 restores the time exactly; _state_pop restores the cache.
 ***************************************************************************)
EXTENDS Integers, Sequences, FiniteSets, TLC, Json
CONSTANTS Slots,       \* e.g. {1, 2, 3}
          GenOf,       \* GenOf[s]: the (name, seed) identity of the slot's generator, e.g. "A" / "B"
          InstOf,      \* InstOf[s]: the instance the slot belongs to
          Times, MaxOps, MaxDepth, RecordHist
VARIABLES time, stack, last, saved, nops, hist, ptime, cnt
vars == <<time, stack, last, saved, nops, hist, ptime, cnt>>
NoT == 99

None == <<"none", 0>>
\* "N": a counter held by a parameter that is *not* time-dependent: every read produces
Term(s, t) == IF GenOf[s] \in {"K", "N"} THEN <<GenOf[s], cnt[s] + 1>> ELSE <<GenOf[s], t>>     \* what a production at time t yields
Rec(name, args, ret) ==
  hist' = IF RecordHist THEN Append(hist, [act |-> [name |-> name] @@ args, ret |-> ret, time |-> time', depth |-> Len(stack')]) ELSE hist
Step == nops < MaxOps /\ nops' = nops + 1

Init == /\ time = 0 /\ stack = <<>> /\ last = [s \in Slots |-> None] /\ saved = [s \in Slots |-> <<>>]
        /\ nops = 0 /\ hist = <<>> /\ ptime = [s \in Slots |-> NoT] /\ cnt = [s \in Slots |-> 0]

SetTime(t) == /\ Step /\ t \in Times /\ time' = t /\ UNCHANGED <<stack, last, saved, ptime, cnt>>
              /\ Rec("settime", [t |-> t], None)
Advance(d) == /\ Step /\ time + d \in Times /\ time' = time + d /\ UNCHANGED <<stack, last, saved, ptime, cnt>>
              /\ Rec("advance", [d |-> d], None)
Enter == /\ Step /\ Len(stack) < MaxDepth /\ stack' = Append(stack, time) /\ UNCHANGED <<time, last, saved, ptime, cnt>>
         /\ Rec("enter", <<>>, None)
\* how the with-block is left: normally, by an exception that propagates, or by StopIteration (which the context swallows)
ExitKinds == {"clean", "error", "stop"}
Exit(how) == /\ stack # <<>> /\ time' = stack[Len(stack)] /\ stack' = SubSeq(stack, 1, Len(stack) - 1)
                 /\ UNCHANGED <<last, saved, nops, ptime, cnt>>
                 /\ Rec("exit", [how |-> how], None)
Produce(s) == /\ last' = [last EXCEPT ![s] = Term(s, time)] /\ ptime' = [ptime EXCEPT ![s] = time]
              /\ cnt' = [cnt EXCEPT ![s] = @ + 1] /\ UNCHANGED <<time, stack, saved>>
Read(s) == /\ Step
           /\ IF GenOf[s] # "N" /\ ptime[s] = time THEN UNCHANGED <<time, stack, saved, last, ptime, cnt>> ELSE Produce(s)
           /\ Rec("read", [s |-> s], last'[s])
\* a read during which the generator raises: no value is produced, nothing is cached -- in particular the
\* time of the failed attempt is not remembered as "produced", so the next read at this time produces
ReadFail(s) == /\ Step /\ GenOf[s] = "K" /\ ptime[s] # time
               /\ UNCHANGED <<time, stack, last, saved, ptime, cnt>>
               /\ Rec("readfail", [s |-> s], None)
Inspect(s) == /\ Step /\ UNCHANGED <<time, stack, last, saved, ptime, cnt>>
              /\ Rec("inspect", [s |-> s], last[s])
Force(s) == /\ Step /\ Produce(s)
            /\ Rec("force", [s |-> s], last'[s])
\* C02 on generators: the slot's generator object is assigned to a constant parameter of the same
\* instance; the assignment is rejected and must not touch the generator's cached state
Reject(s) == /\ Step /\ InstOf[s] # 0 /\ UNCHANGED <<time, stack, last, saved, ptime, cnt>>
             /\ Rec("reject", [s |-> s], None)
\* C02 on generators, update route: an invalid value is given to the slot's own parameter through param.update;
\* the refusal must not touch (in particular: not advance) the generator the parameter holds
RejectUpd(s) == /\ Step /\ UNCHANGED <<time, stack, last, saved, ptime, cnt>>
                /\ Rec("rejectupd", [s |-> s], None)
\* _state_push / _state_pop act on all dynamic parameters of the instance
Mates(s) == {x \in Slots : InstOf[x] = InstOf[s]}
\* (InstOf[s] = 0: the slot is the class-level default generator itself, read and inspected through the class)
Push(s) == /\ Step /\ InstOf[s] # 0 /\ Len(saved[s]) < 2
           /\ saved' = [x \in Slots |-> IF x \in Mates(s) THEN Append(saved[x], <<last[x], ptime[x]>>) ELSE saved[x]]
           /\ UNCHANGED <<time, stack, last, ptime, cnt>>
           /\ Rec("push", [s |-> s], None)
Pop(s) == /\ Step /\ InstOf[s] # 0 /\ saved[s] # <<>>
          /\ last' = [x \in Slots |-> IF x \in Mates(s) THEN saved[x][Len(saved[x])][1] ELSE last[x]]
          /\ ptime' = [x \in Slots |-> IF x \in Mates(s) THEN saved[x][Len(saved[x])][2] ELSE ptime[x]]
          /\ saved' = [x \in Slots |-> IF x \in Mates(s) THEN SubSeq(saved[x], 1, Len(saved[x]) - 1) ELSE saved[x]]
          /\ UNCHANGED <<time, stack, cnt>>
          /\ Rec("pop", [s |-> s], None)

Next == \/ \E t \in Times : SetTime(t)
        \/ \E d \in {-1, 1, 2} : Advance(d)
        \/ Enter \/ \E how \in ExitKinds : Exit(how)
        \/ \E s \in Slots : Read(s) \/ Inspect(s) \/ Force(s) \/ Push(s) \/ Pop(s) \/ Reject(s) \/ RejectUpd(s) \/ ReadFail(s)
Spec == Init /\ [][Next]_vars

\* a cached value is always the term of some time at which the slot was read: values are a function of time
CacheIsTerm == \A s \in Slots : last[s] = None \/ (last[s][1] = GenOf[s] /\ (GenOf[s] \in {"K", "N"} \/ last[s][2] \in Times))
\* the cached value changes only by a production (a read at a new time, or a forced one) or by _state_pop;
\* in particular reading again at an unchanged time, jumping around and inspecting leave it alone
SameTimeSameValue ==
  [][\A s \in Slots : (cnt'[s] = cnt[s] /\ saved'[s] = saved[s]) => (last'[s] = last[s] /\ ptime'[s] = ptime[s])]_vars
\* leaving a context restores the time that was current when it was entered
CtxRestores == [][Len(stack') < Len(stack) => time' = stack[Len(stack)]]_vars
TypeOK == time \in Times /\ nops \in 0..MaxOps
Emit == (RecordHist /\ nops = MaxOps /\ stack = <<>>) => PrintT(<<"BEHAVIOUR", ToJson([steps |-> hist])>>)
=============================================================================
