---- MODULE MC_DependsChain ----
EXTENDS DependsChain
M1s == {11, 12}
M2s == {21, 22}
Ls == {1, 2}
====
