------------------------------- MODULE Refs -------------------------------
(***************************************************************************
 C08 (and the reference clause of C02): parameters with allow_refs=True that
 are given references.

 Two source objects with an integer parameter v; one target object with
 scalar parameters p, q (Integer, bounds 0..5, allow_refs) and a container
 parameter r (List, allow_refs, nested_refs).  A reference is
   [k |-> "param", s |-> i]   the Parameter  S_i.param.v
   [k |-> "paramw", s |-> i]  the Parameter  S_i.param.w  (a second parameter of the same source)
   [k |-> "bind1", s |-> i]   param.bind(lambda v: v + 1, S_i.param.v)
   [k |-> "meth", s |-> i]    the method S_i.plus_one, decorated with param.depends('v')
   [k |-> "bind2"]            param.bind(lambda a, b: a + b, S_1.param.v, S_2.param.v)
   [k |-> "rx", s |-> i]      S_i.param.v.rx() + 1
   [k |-> "nested", s |-> i]  the list [S_i.param.v, 7]      (for r only; r accepts any container)
   [k |-> "nestedd", s |-> i] the dictionary {"k": S_i.param.v, "c": 7}
   [k |-> "nestedt", s |-> i] the tuple (S_i.param.v, 7)
   [k |-> "nestedb", s |-> i] the list [param.bind(lambda v: v + 1, S_i.param.v), 8]
   [k |-> "nested2", s |-> i] the two-level list [[S_i.param.v], 7]
 Links are made by the constructor or by a later assignment.

 link[n]  = the reference parameter n is currently linked to (NoRef if none)
 val[n]   = the value the target shows
 The module states the intended behaviour:
   Mirror        a linked parameter shows Resolve(link) after every source
                 update whose resolved value is valid for it;
   OverrideEnds  assigning a plain value or another reference ends the
                 previous link; other links keep working;
   Rejected      an assignment (plain or reference) whose value is invalid
                 changes nothing: values, links, watchers;
   Hygiene       a source carries a watcher on the target's behalf iff some
                 live link depends on it.
 ***************************************************************************)
EXTENDS Integers, Sequences, FiniteSets, TLC, Json

CONSTANTS Kinds,       \* which reference kinds to use ("const": the constant target parameter k takes part)
          Acts, MaxOps, RecordHist,
          Clamp        \* TRUE: the sources clamp their own v to at most 4 in a depends(watch=True) method, so a
                       \* source can change again while its first change is still being dispatched

Sources == {1, 2}
Scalars == {"p", "q"}
PNames == {"p", "q", "r", "k"}      \* k: Integer, constant=True, allow_refs (linked only by the constructor)
NoneV == -1                          \* a source whose v is None (allowed there, invalid for p, q, k)
CV(v) == IF Clamp /\ v > 4 THEN 4 ELSE v
NoRef == [k |-> "none"]
NestedKinds == {"nested", "nestedd", "nestedt", "nestedb", "nested2"}
NestBase(k) == CASE k = "nested" -> 100 [] k = "nestedd" -> 200 [] k = "nestedt" -> 300 [] k = "nestedb" -> 400 [] k = "nested2" -> 500
RefsFor(n) == IF n = "k" THEN (IF "const" \in Kinds THEN {[k |-> "param", s |-> 1], [k |-> "bind1", s |-> 2]} ELSE {})
              ELSE IF n = "r" THEN {[k |-> kk, s |-> i] : kk \in Kinds \cap NestedKinds, i \in Sources}
              ELSE {[k |-> kk, s |-> i] : kk \in Kinds \cap {"param", "paramw", "bind1", "meth", "rx"}, i \in Sources}
                   \cup (IF "bind2" \in Kinds THEN {[k |-> "bind2"]} ELSE {})

VARIABLES src, srcw, link, val, ctx, nops, hist
vars == <<src, srcw, link, val, ctx, nops, hist>>

Deps(ref) == CASE ref.k = "none" -> {} [] ref.k = "bind2" -> Sources [] OTHER -> {ref.s}
\* the source parameters a reference depends on
DepP(ref) == CASE ref.k = "none" -> {} [] ref.k = "bind2" -> {<<1, "v">>, <<2, "v">>}
               [] ref.k = "paramw" -> {<<ref.s, "w">>} [] OTHER -> {<<ref.s, "v">>}
Resolve(ref, s) ==
  CASE ref.k = "param" -> s[ref.s]
    [] ref.k = "paramw" -> s[ref.s + 10]
    [] ref.k \in {"bind1", "meth", "rx"} -> IF s[ref.s] = NoneV THEN NoneV ELSE s[ref.s] + 1      \* (the functions pass None through)
    [] ref.k = "bind2" -> IF s[1] = NoneV \/ s[2] = NoneV THEN NoneV ELSE s[1] + s[2]
    \* containers: encoded as base + content (content -1: the container holds None)
    [] ref.k = "nestedb" -> NestBase(ref.k) + (IF s[ref.s] = NoneV THEN NoneV ELSE s[ref.s] + 1)
    [] ref.k \in NestedKinds -> NestBase(ref.k) + s[ref.s]
Valid(n, v) == IF n = "r" THEN TRUE ELSE v \in 0..5
Env(sv, sw) == [i \in {1, 2, 11, 12} |-> IF i < 10 THEN sv[i] ELSE sw[i - 10]]
Watched(lk) == {i \in Sources : \E n \in PNames : i \in Deps(lk[n])}

Obs(v, lk) == [val |-> v, watched |-> Watched(lk), linked |-> {n \in PNames : lk[n] # NoRef}]
Rec(name, args, res, v, lk, tags) ==
  hist' = IF RecordHist THEN Append(hist, [act |-> [name |-> name] @@ args, res |-> res, obs |-> Obs(v, lk), kf |-> tags]) ELSE hist

Init == /\ src \in [Sources -> {0, 2}] /\ srcw = [i \in Sources |-> 1]
        /\ link \in [PNames -> UNION {RefsFor(n) : n \in PNames} \cup {NoRef}]
        /\ \A n \in PNames : link[n] = NoRef \/ (link[n] \in RefsFor(n) /\ Valid(n, Resolve(link[n], Env(src, srcw))))
        /\ link["q"] = NoRef \/ link["p"] # NoRef      \* (symmetry: q is linked only if p is)
        /\ ("const" \notin Kinds \/ "ro" \in Kinds => link["k"] = NoRef)        \* ("ro": k is readonly -- not even the constructor sets it)
        /\ val = [n \in PNames |-> IF link[n] = NoRef THEN (IF n = "r" THEN 107 ELSE 1) ELSE Resolve(link[n], Env(src, srcw))]
        /\ ctx = <<>> /\ nops = 0
        /\ hist = IF RecordHist THEN <<[act |-> [name |-> "init", src |-> src, srcw |-> srcw, link |-> link, clamp |-> Clamp, ro |-> ("ro" \in Kinds)], res |-> "ok", obs |-> Obs(val, link), kf |-> {}]>> ELSE <<>>

Step == nops < MaxOps /\ nops' = nops + 1

\* a source is assigned: every live link that depends on it follows, if the new value is valid
\* one or both parameters of a source are assigned (both: in one batch, s.param.update(v=.., w=..))
\* (order: which keyword comes first in the batch -- the dispatch order of the queued watchers depends on it)
SetSource(i, v0, w, order) ==
  /\ "source" \in Acts /\ Step /\ (CV(v0) # src[i] \/ w # srcw[i])
  /\ (order = "wv" => (CV(v0) # src[i] /\ w # srcw[i]))
  /\ LET v == CV(v0)
         s2 == [src EXCEPT ![i] = v]
         w2 == [srcw EXCEPT ![i] = w]
         changed == (IF v # src[i] THEN {<<i, "v">>} ELSE {}) \cup (IF w # srcw[i] THEN {<<i, "w">>} ELSE {})
         \* every link that depends on a changed source parameter is resolved again (also one whose
         \* resolved value was and stays invalid: the source assignment raises again)
         touched == {n \in PNames : DepP(link[n]) \cap changed # {}}
         aff == touched
         bad == {n \in aff : ~Valid(n, Resolve(link[n], Env(s2, w2)))}
     IN /\ (bad # {} => Cardinality(touched) = 1)        \* (several links, one invalid: order-dependent, outside the domain)
        /\ src' = s2 /\ srcw' = w2
        /\ val' = [n \in PNames |-> IF n \in aff \ bad THEN Resolve(link[n], Env(s2, w2)) ELSE val[n]]
        /\ UNCHANGED <<link, ctx>>
        /\ Rec("source", [i |-> i, v |-> v0, w |-> w, both |-> (v # src[i] /\ w # srcw[i]), order |-> order], IF bad = {} THEN "ok" ELSE "invalid", val', link, {})

\* via: the assignment is made directly ("direct"), or by a watcher of the other scalar parameter that runs because that
\* parameter is triggered ("trig": target.param.trigger(other); an assignment made while watchers are dispatched is an
\* assignment like any other)
ViaOK(n, via) == via = "direct" \/ (via = "trig" /\ "trigger" \in Acts /\ n \in Scalars /\ ctx = <<>>)

\* the target parameter n is assigned a reference
SetRef(n, ref, via) ==
  /\ "ref" \in Acts /\ Step /\ ref \in RefsFor(n) /\ ViaOK(n, via)
  \* (a constant parameter may be re-assigned the identical object: a reference that currently resolves to it is left out)
  \* (a readonly parameter refuses that one too)
  /\ (n = "k" /\ "ro" \notin Kinds => Resolve(ref, Env(src, srcw)) # val["k"])
  /\ IF n # "k" /\ Valid(n, Resolve(ref, Env(src, srcw)))
     THEN /\ link' = [link EXCEPT ![n] = ref] /\ val' = [val EXCEPT ![n] = Resolve(ref, Env(src, srcw))]
          /\ Rec("ref", [n |-> n, ref |-> ref, via |-> via], "ok", val', link', {})
     ELSE /\ UNCHANGED <<link, val>>
          /\ Rec("ref", [n |-> n, ref |-> ref, via |-> via], "rejected", val, link, {"KF_RejectedRefRelinks"})
  /\ UNCHANGED <<src, srcw, ctx>>

\* the target parameter n is assigned a plain value (9 is invalid for p and q)
SetPlain(n, v, via) ==
  /\ "plain" \in Acts /\ Step /\ ViaOK(n, via) /\ (n = "k" => ("const" \in Kinds /\ ("ro" \in Kinds \/ v # val["k"])))
  /\ IF n # "k" /\ Valid(n, v)
     THEN /\ link' = [link EXCEPT ![n] = NoRef] /\ val' = [val EXCEPT ![n] = v]
          /\ Rec("plain", [n |-> n, v |-> v, via |-> via], "ok", val', link', IF link[n] # NoRef THEN {"KF_OverrideLeavesWatcher"} ELSE {})
     ELSE /\ UNCHANGED <<link, val>>
          /\ Rec("plain", [n |-> n, v |-> v, via |-> via], "rejected", val, link, IF link[n] # NoRef THEN {"KF_RejectedPlainUnlinks"} ELSE {})
  /\ UNCHANGED <<src, srcw, ctx>>

\* the constant parameter k is assigned a value that is equal to, but not the same object as, the one it holds
\* (float(k) for the int it holds): refused like any other object, links untouched
SetPlainEq ==
  /\ "plain" \in Acts /\ "const" \in Kinds /\ Step
  /\ UNCHANGED <<src, srcw, link, val, ctx>>
  /\ Rec("plaineq", [n |-> "k"], "rejected", val, link, {})

\* target.param.trigger(n): the watchers of n run; values and links stay as they are
TriggerT(n) ==
  /\ "trigger" \in Acts /\ Step /\ n \in Scalars /\ ctx = <<>>
  /\ UNCHANGED <<src, srcw, link, val, ctx>>
  /\ Rec("trigger", [n |-> n], "ok", val, link, {})

\* `with target.param.update(n=v):` ... on exit the previous value and link are back
EnterUpd(n, v, form) ==
  /\ "updctx" \in Acts /\ Step /\ ctx = <<>> /\ n \in Scalars /\ Valid(n, v)
  /\ ctx' = <<[n |-> n, lk |-> link[n], v |-> val[n]]>>
  /\ link' = [link EXCEPT ![n] = NoRef] /\ val' = [val EXCEPT ![n] = v]
  /\ UNCHANGED <<src, srcw>>
  /\ Rec("enterupd", [n |-> n, v |-> v, form |-> form], "ok", val', link', IF link[n] # NoRef THEN {"KF_OverrideLeavesWatcher"} ELSE {})
ExitUpd ==
  /\ "updctx" \in Acts /\ ctx # <<>>
  /\ LET c == ctx[1]
         v2 == IF c.lk = NoRef THEN c.v ELSE Resolve(c.lk, Env(src, srcw)) IN
     /\ (c.lk # NoRef => Valid(c.n, v2))
     /\ link' = [link EXCEPT ![c.n] = c.lk] /\ val' = [val EXCEPT ![c.n] = v2]
     /\ ctx' = <<>> /\ UNCHANGED <<src, srcw, nops>>
     /\ Rec("exitupd", <<>>, "ok", val', link', {})

Next == \/ \E i \in Sources, v \in {0, 2, 4, 5, NoneV}, w \in {1, 3}, o \in {"vw", "wv"} : SetSource(i, v, w, o)
        \/ \E n \in PNames, via \in {"direct", "trig"} : \E ref \in RefsFor(n) : SetRef(n, ref, via)
        \/ \E n \in PNames : \E v \in (IF n = "r" THEN {107} ELSE IF n = "k" /\ "ro" \in Kinds THEN {1, 3} ELSE {3, 9}) : \E via \in {"direct", "trig"} : SetPlain(n, v, via)
        \/ \E n \in Scalars, form \in {"kw", "dict"} : EnterUpd(n, 3, form)
        \/ ExitUpd \/ SetPlainEq \/ \E n \in Scalars : TriggerT(n)
Spec == Init /\ [][Next]_vars

\* ---- properties ------------------------------------------------------------------------------
\* a live link whose resolved value is valid is mirrored
Mirror == \A n \in PNames : (link[n] # NoRef /\ Valid(n, Resolve(link[n], Env(src, srcw)))) => val[n] = Resolve(link[n], Env(src, srcw))
\* an overridden parameter is not affected by its old sources any more
OverrideEnds ==
  [][\A n \in PNames : (link[n] = NoRef /\ link'[n] = NoRef /\ (src' # src \/ srcw' # srcw)) => val'[n] = val[n]]_vars
TypeOK == nops \in 0..MaxOps
Emit == (RecordHist /\ nops = MaxOps /\ ctx = <<>>) => PrintT(<<"BEHAVIOUR", ToJson([steps |-> hist])>>)
=============================================================================
