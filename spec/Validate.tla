----------------------------- MODULE Validate -----------------------------
(***************************************************************************
 C01: which values a Parameter accepts.

 `Accepts(t, c, v)` is written from the documentation of each Parameter type
 and from the property text: the value has the declared type; None is accepted
 iff allow_None; a numeric / date value lies within the hard bounds, a boundary
 value being accepted exactly when that side is inclusive and NaN never being
 inside a bound; lengths, regexes, item types and object lists are honoured.

 The state machine is the life of one declared Parameter: a configuration and
 a valid default are chosen, then any sequence of assignment attempts through
 any route installs the candidate iff it is accepted.  Invariant StoredValid:
 every installed value satisfied the constraints.  The verdict is independent
 of the route -- that is the property -- so a behaviour record lists, per
 (type, configuration), the verdict for every candidate, and the harness tries
 every candidate through every route on the real code.

 Numbers are carried as n2 = 2 x value (so halves exist); NoB is "no bound".
 Candidate values are records [k |-> kind, ...].
 ***************************************************************************)
EXTENDS Integers, Sequences, FiniteSets, TLC, Json

CONSTANTS Types,        \* the Parameter types to enumerate in this run
          MaxOps, RecordHist

NoB == -9999
None == [k |-> "none"]
I(n) == [k |-> "int", n2 |-> 2 * n]
F(n2) == [k |-> "float", n2 |-> n2]
Fr(n2) == [k |-> "frac", n2 |-> n2]
De(n2) == [k |-> "dec", n2 |-> n2]
NaN == [k |-> "nan"]
Inf(s) == [k |-> "inf", n2 |-> s * 5000]
S(x) == [k |-> "str", s |-> x]
B(x) == [k |-> "bytes", s |-> x]
Bo(x) == [k |-> "bool", b |-> x]
D(d) == [k |-> "date", t2 |-> 2 * d]              \* a date: midnight of day d
DT(d, h) == [k |-> "datetime", t2 |-> 2 * d + h]   \* a datetime: day d, h = 0 midnight / 1 noon
DTu(d) == [k |-> "datetime", t2 |-> 2 * d, us |-> 1]   \* midnight of day d plus one microsecond
Tup(items) == [k |-> "tuple", items |-> items]
Lst(items) == [k |-> "list", items |-> items]
Call == [k |-> "callable"]
\* callables that cannot serve as a value generator (they take no attributes): the builtin function len, the builtin type float
Blt(w) == [k |-> "builtin", w |-> w]
Cls(c) == [k |-> "class", c |-> c]       \* the class object itself: "A", "SubA", "Other"
Inst(c) == [k |-> "inst", c |-> c]      \* an instance of that class
Dct == [k |-> "dict"]

IsNum(v) == v.k \in {"int", "float", "frac", "dec", "nan", "inf"}
IsDT(v) == v.k \in {"date", "datetime"}
\* dates are ordered at a resolution of 1/10 of the t2 unit, so that "one microsecond later" fits in between
Ord(v) == IF IsDT(v) THEN 10 * v.t2 + (IF "us" \in DOMAIN v THEN v.us ELSE 0) ELSE v.n2
Sc(v, b) == IF IsDT(v) THEN 10 * b ELSE b
Cmp(v) == v.k # "nan"        \* comparisons with NaN are all false
InB(v, lo, hi, il, ih) ==
  /\ (lo = NoB \/ (Cmp(v) /\ IF il THEN Ord(v) >= Sc(v, lo) ELSE Ord(v) > Sc(v, lo)))
  /\ (hi = NoB \/ (Cmp(v) /\ IF ih THEN Ord(v) <= Sc(v, hi) ELSE Ord(v) < Sc(v, hi)))
All(items, P(_)) == \A i \in 1..Len(items) : P(items[i])
SubOf(c, base) == c = base \/ (c = "SubA" /\ base = "A")

\* ---- configurations ------------------------------------------------------------------
Cfg0 == [lo |-> NoB, hi |-> NoB, il |-> TRUE, ih |-> TRUE, an |-> FALSE, len |-> 0, rx |-> FALSE,
         it |-> "none", objs |-> {}, cos |-> TRUE, cls |-> "A", isi |-> TRUE, named |-> FALSE,
         dd |-> FALSE]      \* dd: the objects were declared as a dictionary {"l" + o : o} -- labels are not objects
BOOL == {TRUE, FALSE}
BoundCfgs(los, his) ==
  {[Cfg0 EXCEPT !.lo = lo, !.hi = hi, !.il = il, !.ih = ih, !.an = an] :
      lo \in los, hi \in his, il \in BOOL, ih \in BOOL, an \in BOOL}
Norm(CS) == {c \in CS : (c.lo = NoB => c.il) /\ (c.hi = NoB => c.ih)}   \* inclusivity of an absent bound is irrelevant

Cfgs(t) ==
  CASE t \in {"Number", "Integer"} -> Norm(BoundCfgs({NoB, 0, 2}, {NoB, 4}))
    [] t = "Magnitude" -> {[Cfg0 EXCEPT !.lo = 0, !.hi = 2, !.an = an] : an \in BOOL}
    [] t \in {"Date", "CalendarDate"} -> Norm(BoundCfgs({NoB, 4}, {NoB, 8}))
    [] t \in {"Boolean", "Callable", "Action", "Dict", "Parameter", "Event"} -> {[Cfg0 EXCEPT !.an = an] : an \in BOOL}
    [] t \in {"String", "Bytes"} -> {[Cfg0 EXCEPT !.an = an, !.rx = rx] : an \in BOOL, rx \in BOOL}
    [] t \in {"Tuple", "NumericTuple"} -> {[Cfg0 EXCEPT !.an = an, !.len = l] : an \in BOOL, l \in {2, 3}}
    [] t = "XYCoordinates" -> {[Cfg0 EXCEPT !.an = an, !.len = 2] : an \in BOOL}
    [] t = "Range" -> {[c EXCEPT !.len = 2] : c \in Norm(BoundCfgs({NoB, 0}, {NoB, 4}))}
    [] t \in {"DateRange", "CalendarDateRange"} -> {[c EXCEPT !.len = 2] : c \in Norm(BoundCfgs({NoB, 4}, {NoB, 8}))}
    [] t = "List" -> {[Cfg0 EXCEPT !.an = an, !.lo = lo, !.hi = hi, !.it = it] :
                         an \in BOOL, lo \in {NoB, 1}, hi \in {NoB, 2}, it \in {"none", "int", "str"}}
    [] t = "HookList" -> {[Cfg0 EXCEPT !.an = an, !.lo = lo, !.hi = hi] : an \in BOOL, lo \in {NoB, 1}, hi \in {NoB, 2}}
    [] t \in {"Selector", "ListSelector"} ->
          {[Cfg0 EXCEPT !.an = an, !.objs = o, !.cos = cos, !.dd = dd] : an \in BOOL, o \in {{"a", "b"}, {"a"}, {"L", "a"}}, cos \in BOOL, dd \in BOOL}      \* "L": an object whose text is 250 characters long, listed first
    [] t = "ClassSelector" -> {[Cfg0 EXCEPT !.an = an, !.cls = c, !.isi = isi] : an \in BOOL, c \in {"A", "AorOther"}, isi \in BOOL}
    [] t = "Color" -> {[Cfg0 EXCEPT !.an = an, !.named = n] : an \in BOOL, n \in BOOL}

\* ---- candidates: at, just inside and just outside every bound; every wrong kind -----------
NumCands == {I(-1), I(0), I(1), I(2), I(3), F(-2), F(0), F(1), F(2), F(3), F(4), F(5), F(6),
             Fr(1), Fr(4), Fr(5), De(3), De(4), De(6), NaN, Inf(1), Inf(-1)}
DateCands == {D(1), D(2), D(3), D(4), D(5), DT(1, 1), DT(2, 0), DT(2, 1), DT(3, 0), DT(4, 0), DT(4, 1), DT(5, 0),
              DTu(2), DTu(4)}       \* one microsecond past a lower / an upper bound
Wrong == {None, S("a1"), Tup(<<I(1), I(2)>>), Lst(<<I(1)>>)}
Cands(t) ==
  CASE t \in {"Number", "Magnitude"} -> NumCands \cup Wrong \cup {Blt("len"), Blt("float")}
    [] t = "Integer" -> NumCands \cup Wrong \cup {Blt("len"), Blt("float")}
    [] t \in {"Date", "CalendarDate"} -> DateCands \cup {None, I(3), S("a1"), F(4)}
    [] t \in {"Boolean", "Event"} -> {Bo(TRUE), Bo(FALSE), None, I(0), I(1), S("a1"), F(2)}
    [] t = "String" -> {S("a1"), S("zz"), S(""), None, B("a1"), I(1), Lst(<<>>)}
    [] t = "Bytes" -> {B("a1"), B("zz"), B(""), None, S("a1"), I(1)}
    [] t \in {"Callable", "Action"} -> {Call, Cls("A"), None, I(1), S("a1")}
    [] t = "Dict" -> {Dct, None, Lst(<<>>), I(1), Tup(<<>>)}
    [] t = "Parameter" -> {None, I(1), S("a1"), Lst(<<>>), Call}
    [] t = "Tuple" -> {Tup(<<I(1), I(2)>>), Tup(<<I(1), S("a1"), None>>), Tup(<<I(1)>>), Tup(<<>>),
                       Lst(<<I(1), I(2)>>), None, I(1), S("ab")}
    [] t \in {"NumericTuple", "XYCoordinates"} ->
          {Tup(<<I(1), I(2)>>), Tup(<<F(1), Fr(1)>>), Tup(<<I(1), S("a1")>>), Tup(<<I(1), None>>), Tup(<<I(1), I(2), F(3)>>),
           Tup(<<I(1)>>), Lst(<<I(1), I(2)>>), None, I(1), Tup(<<NaN, I(1)>>)}
    [] t = "Range" -> {Tup(<<I(0), I(2)>>), Tup(<<I(1), F(3)>>), Tup(<<F(-1), I(1)>>), Tup(<<I(1), F(5)>>), Tup(<<I(1), I(1)>>),
                       Tup(<<I(0), I(1)>>), Tup(<<I(1), I(2)>>), Tup(<<I(2), I(0)>>), Tup(<<I(3), I(1)>>), Tup(<<I(1), I(-1)>>),
                       Tup(<<NaN, I(1)>>), Tup(<<I(1), NaN>>), Tup(<<Inf(-1), I(1)>>), Tup(<<I(1), Inf(1)>>),
                       Tup(<<I(1)>>), Tup(<<I(1), I(1), I(1)>>), Tup(<<I(1), S("a1")>>), Lst(<<I(1), I(2)>>), None, I(1)}
    [] t = "DateRange" -> {Tup(<<DTu(2), DT(3, 0)>>), Tup(<<DT(3, 0), DTu(4)>>), Tup(<<DTu(2), DT(2, 0)>>), Tup(<<D(2), D(4)>>), Tup(<<D(3), D(3)>>), Tup(<<D(1), D(3)>>), Tup(<<D(3), D(5)>>), Tup(<<DT(2, 0), DT(4, 0)>>),
                           Tup(<<DT(2, 1), DT(3, 1)>>), Tup(<<DT(3, 0), DT(4, 1)>>), Tup(<<D(3), D(2)>>), Tup(<<D(2)>>),
                           Tup(<<I(1), I(2)>>), Lst(<<D(2), D(3)>>), None, D(2)}
    [] t = "CalendarDateRange" -> {Tup(<<D(2), D(4)>>), Tup(<<D(3), D(3)>>), Tup(<<D(1), D(3)>>), Tup(<<D(3), D(5)>>), Tup(<<D(3), D(2)>>),
                                   Tup(<<I(1), I(2)>>), Tup(<<S("a1"), S("zz")>>), None,
                                   Lst(<<D(2), D(4)>>), Tup(<<DT(2, 0), DT(3, 0)>>), Tup(<<D(2), DT(3, 1)>>)}     \* a list; datetimes
    [] t = "List" -> {Lst(<<>>), Lst(<<I(1)>>), Lst(<<I(1), I(2)>>), Lst(<<I(1), I(2), I(3)>>), Lst(<<S("a1")>>), Lst(<<I(1), S("a1")>>),
                      Lst(<<S("a1"), S("zz"), S("")>>), Tup(<<I(1)>>), None, I(1), S("a1"),
                      Lst(<<I(1), None>>), Lst(<<None, S("a1")>>), Lst(<<None>>)}
    [] t = "HookList" -> {Lst(<<>>), Lst(<<Call>>), Lst(<<Call, Call>>), Lst(<<Call, Call, Call>>), Lst(<<Call, I(1)>>), Lst(<<I(1)>>),
                          Tup(<<Call>>), None, Call}
    [] t = "Selector" -> {S("a"), S("b"), S("c"), S("la"), None, I(1)}
    [] t = "ListSelector" -> {Lst(<<>>), Lst(<<S("a")>>), Lst(<<S("a"), S("b")>>), Lst(<<S("c")>>), Lst(<<S("a"), S("c")>>), Lst(<<S("la")>>), Lst(<<S("a"), S("la")>>), None, S("a"), Tup(<<S("a")>>)}
    [] t = "ClassSelector" -> {Inst("A"), Inst("SubA"), Inst("Other"), Inst("Third"), Cls("A"), Cls("SubA"), Cls("Other"), Cls("Third"), None}
    [] t = "Color" -> {S("#ff0000"), S("#abc"), S("ff0000"), S("red"), S("Red"), S("#ff00"), S("notacolor"), S(""), None, I(1)}

Matches(s) == s \in {"a1"}        \* the one regex used: ^a\d$
IsHex(s) == s \in {"#ff0000", "#abc", "ff0000"}
IsNamed(s) == s \in {"red", "Red"}
ItemOK(it, v) == it = "none" \/ (it = "int" /\ v.k = "int") \/ (it = "str" /\ v.k = "str")
ClsOK(c, base) == IF base = "AorOther" THEN SubOf(c, "A") \/ c = "Other" ELSE SubOf(c, base)

Accepts(t, c, v) ==
  IF v.k = "none" THEN (c.an \/ t = "Parameter" \/ (t = "Selector" /\ ~c.cos))
  ELSE CASE t = "Parameter" -> TRUE
    [] t \in {"Number", "Magnitude"} -> IsNum(v) /\ InB(v, c.lo, c.hi, c.il, c.ih)
    [] t = "Integer" -> v.k = "int" /\ InB(v, c.lo, c.hi, c.il, c.ih)
    [] t = "Date" -> IsDT(v) /\ InB(v, c.lo, c.hi, c.il, c.ih)
    [] t = "CalendarDate" -> v.k = "date" /\ InB(v, c.lo, c.hi, c.il, c.ih)
    [] t \in {"Boolean", "Event"} -> v.k = "bool"
    [] t = "String" -> v.k = "str" /\ (c.rx => Matches(v.s))
    [] t = "Bytes" -> v.k = "bytes" /\ (c.rx => Matches(v.s))
    [] t \in {"Callable", "Action"} -> v.k \in {"callable", "class"}
    [] t = "Dict" -> v.k = "dict"
    [] t = "Tuple" -> v.k = "tuple" /\ Len(v.items) = c.len
    [] t \in {"NumericTuple", "XYCoordinates"} -> v.k = "tuple" /\ Len(v.items) = c.len /\ All(v.items, IsNum)
    [] t = "Range" -> /\ v.k = "tuple" /\ Len(v.items) = 2 /\ All(v.items, IsNum)
                      /\ All(v.items, LAMBDA x : InB(x, c.lo, c.hi, c.il, c.ih))
    [] t = "DateRange" -> /\ v.k = "tuple" /\ Len(v.items) = 2 /\ All(v.items, IsDT)
                          /\ Ord(v.items[2]) >= Ord(v.items[1])
                          /\ All(v.items, LAMBDA x : InB(x, c.lo, c.hi, c.il, c.ih))
    [] t = "CalendarDateRange" -> /\ v.k = "tuple" /\ Len(v.items) = 2 /\ All(v.items, LAMBDA x : x.k = "date")
                                  /\ v.items[2].t2 >= v.items[1].t2
                                  /\ All(v.items, LAMBDA x : InB(x, c.lo, c.hi, c.il, c.ih))
    [] t = "List" -> /\ v.k = "list" /\ (c.lo = NoB \/ Len(v.items) >= c.lo) /\ (c.hi = NoB \/ Len(v.items) <= c.hi)
                     /\ All(v.items, LAMBDA x : ItemOK(c.it, x))
    [] t = "HookList" -> /\ v.k = "list" /\ (c.lo = NoB \/ Len(v.items) >= c.lo) /\ (c.hi = NoB \/ Len(v.items) <= c.hi)
                         /\ All(v.items, LAMBDA x : x.k = "callable")
    [] t = "Selector" -> ~c.cos \/ (v.k = "str" /\ v.s \in c.objs)
    [] t = "ListSelector" -> v.k = "list" /\ (~c.cos \/ All(v.items, LAMBDA x : x.k = "str" /\ x.s \in c.objs))
    [] t = "ClassSelector" -> IF c.isi THEN v.k = "inst" /\ ClsOK(v.c, c.cls) ELSE v.k = "class" /\ ClsOK(v.c, c.cls)
    [] t = "Color" -> v.k = "str" /\ (IsHex(v.s) \/ (c.named /\ IsNamed(v.s)))

\* "the constraints in force at that moment": the attributes of the declared Parameter are then changed in place to
\* Alt(t, c), and every candidate is judged again under the new constraints
Flip(c) == [c EXCEPT !.an = ~c.an,
                     !.il = IF c.lo = NoB THEN TRUE ELSE ~c.il, !.ih = IF c.hi = NoB THEN TRUE ELSE ~c.ih]
Alt(t, c) ==
  CASE t \in {"Number", "Integer"} -> IF c.lo = NoB /\ c.hi = NoB THEN [c EXCEPT !.lo = 2, !.il = FALSE, !.an = ~c.an] ELSE Flip(c)
    [] t \in {"Date", "CalendarDate", "DateRange", "CalendarDateRange"} ->
          IF c.lo = NoB /\ c.hi = NoB THEN [c EXCEPT !.lo = 4, !.il = FALSE, !.an = ~c.an] ELSE Flip(c)
    [] t = "Range" -> IF c.lo = NoB /\ c.hi = NoB THEN [c EXCEPT !.lo = 0, !.il = FALSE, !.an = ~c.an] ELSE Flip(c)
    [] t \in {"String", "Bytes"} -> [c EXCEPT !.rx = ~c.rx, !.an = ~c.an]
    [] t \in {"Tuple", "NumericTuple"} -> [c EXCEPT !.len = IF c.len = 2 THEN 3 ELSE 2, !.an = ~c.an]
    [] t = "List" -> [c EXCEPT !.lo = IF c.lo = NoB THEN 1 ELSE NoB, !.hi = IF c.hi = NoB THEN 2 ELSE NoB,
                               !.it = CASE c.it = "none" -> "int" [] c.it = "int" -> "str" [] c.it = "str" -> "none"]
    [] t = "HookList" -> [c EXCEPT !.lo = IF c.lo = NoB THEN 1 ELSE NoB, !.hi = IF c.hi = NoB THEN 2 ELSE NoB]
    [] t \in {"Selector", "ListSelector"} -> [c EXCEPT !.objs = IF c.objs = {"a"} THEN {"a", "b"} ELSE {"a"}, !.an = ~c.an]
    [] t = "ClassSelector" -> [c EXCEPT !.cls = IF c.cls = "A" THEN "AorOther" ELSE "A", !.an = ~c.an]
    [] t = "Color" -> [c EXCEPT !.named = ~c.named, !.an = ~c.an]
    [] OTHER -> [c EXCEPT !.an = ~c.an]
\* ---- the state machine -----------------------------------------------------------------
VARIABLES t, c, stored, nops, hist
vars == <<t, c, stored, nops, hist>>

Routes == {"constructor", "instance", "class", "update", "deserialize"}

Init == /\ t \in Types /\ c \in Cfgs(t)
        /\ stored \in {v \in Cands(t) : Accepts(t, c, v)}      \* the declared default
        /\ nops = 0 /\ hist = <<>>

Attempt(route, v) ==
  /\ nops < MaxOps /\ nops' = nops + 1
  /\ stored' = IF Accepts(t, c, v) THEN v ELSE stored
  /\ hist' = IF RecordHist THEN Append(hist, [route |-> route, v |-> v, acc |-> Accepts(t, c, v)]) ELSE hist
  /\ UNCHANGED <<t, c>>

Next == \E r \in Routes, v \in Cands(t) : Attempt(r, v)
Spec == Init /\ [][Next]_vars

\* ---- C01 on the specification ---------------------------------------------------------------
StoredValid == Accepts(t, c, stored)
\* a boundary value is accepted exactly when that side is inclusive
Boundary ==
  (t \in {"Number", "Integer", "Magnitude"}) =>
     /\ (c.lo # NoB /\ c.lo % 2 = 0 /\ (c.hi = NoB \/ c.lo < c.hi)) => (Accepts(t, c, [k |-> "int", n2 |-> c.lo]) <=> c.il)
     /\ (c.hi # NoB /\ c.hi % 2 = 0 /\ (c.lo = NoB \/ c.lo < c.hi)) => (Accepts(t, c, [k |-> "int", n2 |-> c.hi]) <=> c.ih)
\* NaN is never inside a hard bound
NaNOutside == (t \in {"Number", "Magnitude"} /\ (c.lo # NoB \/ c.hi # NoB)) => ~Accepts(t, c, NaN)
NaNOutsideRange == (t = "Range" /\ (c.lo # NoB \/ c.hi # NoB)) => ~Accepts(t, c, Tup(<<NaN, I(1)>>))
NoneIffAllowed == (t \notin {"Parameter", "Selector"}) => (Accepts(t, c, None) <=> c.an)

\* one record per (type, configuration): the verdict for every candidate
Table == [t |-> t, c |-> c, cases |-> {[v |-> v, acc |-> Accepts(t, c, v)] : v \in Cands(t)},
          alt |-> [c |-> Alt(t, c), cases |-> {[v |-> v, acc |-> Accepts(t, Alt(t, c), v)] : v \in Cands(t)}]]
EmitTable == (RecordHist /\ nops = 0 /\ stored = CHOOSE v \in {x \in Cands(t) : Accepts(t, c, x)} : TRUE)
                => PrintT(<<"BEHAVIOUR", ToJson(Table)>>)
=============================================================================
