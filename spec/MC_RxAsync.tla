---- MODULE MC_RxAsync ----
EXTENDS RxAsync
====
