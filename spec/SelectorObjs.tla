--------------------------- MODULE SelectorObjs ---------------------------
(***************************************************************************
 The `objects` attribute of a param Selector / ListSelector (C18):

   objs    Selector._objects            the list view (a sequence)
   names   Selector.names               ordered mapping key -> object,
                                        <<>> for a list-declared Selector
   value   the parameter's current value (Selector: one object or None = 0;
           ListSelector: a sequence of objects)

 One action per public mutator of ListProxy (param/parameters.py:1608-1777)
 plus wholesale replacement (`p.objects = ...`) and value assignment.
 Operations are style-consistent (list mutators on list-declared selectors,
 key mutators on dict-declared ones; pop-by-index / remove / clear on both)
 and keep objects unique, as the property's quantifier says.

 Each visible step records what the property fixes: the return value, the
 new list view and name mapping, how many `objects` notifications the
 mutation must cause, and -- for value assignments -- accept / reject.
 ***************************************************************************)
EXTENDS Naturals, Sequences, FiniteSets, TLC, Json

CONSTANTS Objects,      \* pool of distinct object tokens (1..n)
          Keys,         \* pool of names
          MaxOps, MaxLen, RecordHist,
          DictDeclared, \* TRUE: objects declared as a dictionary
          Multi         \* TRUE: ListSelector (value is a sequence of objects)

VARIABLES objs, names, value, nops, hist,
          hsnap    \* a handle `h = p.objects` kept by the user: its own list content (NoH: none kept).
                   \* Every other action fetches a fresh handle; a kept one goes stale when they mutate.
vars == <<objs, names, value, nops, hist, hsnap>>
NoH == <<0>>

Range(s) == {s[i] : i \in 1..Len(s)}
KeysOf(nm) == {nm[i][1] : i \in 1..Len(nm)}
ValsOf(nm) == [i \in 1..Len(nm) |-> nm[i][2]]
RemoveAt(s, i) == SubSeq(s, 1, i-1) \o SubSeq(s, i+1, Len(s))
IndexOf(s, x) == CHOOSE i \in 1..Len(s) : s[i] = x
KeyIndex(nm, k) == CHOOSE j \in 1..Len(nm) : nm[j][1] = k
NoDup(s) == Cardinality(Range(s)) = Len(s)

Rec(name, args, ret, notes, o2, n2, v2) ==
  hist' = IF RecordHist
          THEN Append(hist, [act |-> [name |-> name] @@ args, ret |-> ret, notes |-> notes,
                             obs |-> [objs |-> o2, names |-> n2, value |-> v2, h |-> hsnap'], kf |-> {}])
          ELSE hist

Init == \E n \in 1..2 :
          LET o == [i \in 1..n |-> i]
              nm == IF DictDeclared THEN [i \in 1..n |-> <<i, o[i]>>] ELSE <<>>
              v == IF Multi THEN <<1>> ELSE 1 IN
          /\ objs = o /\ names = nm /\ nops = 0 /\ value = v /\ hsnap = NoH
          /\ hist = IF RecordHist THEN <<[act |-> [name |-> "init"], ret |-> 0, notes |-> 0,
                                          obs |-> [objs |-> o, names |-> nm, value |-> v, h |-> NoH], kf |-> {}]>> ELSE <<>>

Step == nops < MaxOps /\ nops' = nops + 1
Keep == UNCHANGED <<value, hsnap>>

\* ---- list-style mutators ---------------------------------------------------------
Append_(x) == /\ Step /\ ~DictDeclared /\ x \notin Range(objs) /\ Len(objs) < MaxLen
              /\ objs' = Append(objs, x) /\ UNCHANGED names /\ Keep
              /\ Rec("append", [x |-> x], 0, 1, objs', names, value)
Insert_(i, x) == /\ Step /\ ~DictDeclared /\ x \notin Range(objs) /\ i \in 0..Len(objs) /\ Len(objs) < MaxLen
                 /\ objs' = SubSeq(objs, 1, i) \o <<x>> \o SubSeq(objs, i+1, Len(objs)) /\ UNCHANGED names /\ Keep
                 /\ Rec("insert", [i |-> i, x |-> x], 0, 1, objs', names, value)
Extend_(xs) == /\ Step /\ ~DictDeclared /\ NoDup(xs) /\ Range(xs) \cap Range(objs) = {} /\ Len(objs) + Len(xs) <= MaxLen
               /\ objs' = objs \o xs /\ UNCHANGED names /\ Keep
               /\ Rec("extend", [xs |-> xs], 0, IF xs = <<>> THEN 2 ELSE 1, objs', names, value)
SetIndex(i, x) == /\ Step /\ ~DictDeclared /\ i \in 1..Len(objs) /\ x \notin Range(objs)
                  /\ objs' = [objs EXCEPT ![i] = x] /\ UNCHANGED names /\ Keep
                  /\ Rec("setindex", [i |-> i - 1, x |-> x], 0, 1, objs', names, value)
\* objects[lo:hi] = xs (0-based, half open): the slice is replaced, the list may grow or shrink
SetSlice(lo, hi, xs) ==
  /\ Step /\ ~DictDeclared /\ lo \in 0..Len(objs) /\ hi \in lo..Len(objs)
  /\ LET r == SubSeq(objs, 1, lo) \o xs \o SubSeq(objs, hi + 1, Len(objs)) IN
     /\ NoDup(r) /\ Len(r) <= MaxLen
     /\ objs' = r /\ UNCHANGED names /\ Keep
     /\ Rec("setslice", [lo |-> lo, hi |-> hi, xs |-> xs], 0, IF r = objs THEN 2 ELSE 1, r, names, value)
\* ---- a handle kept across other mutations -------------------------------------------
Grab == /\ Step /\ hsnap' = objs /\ UNCHANGED <<objs, names, value>>
        /\ Rec("grab", <<>>, 0, 0, objs, names, value)
\* h.pop(i) through the kept handle: removes the i-th of the *current* objects and returns it
PopVia(i) == /\ Step /\ hsnap # NoH /\ i \in 1..Len(objs) /\ i \in 1..Len(hsnap)
             /\ objs' = RemoveAt(objs, i)
             /\ names' = (IF names = <<>> THEN <<>> ELSE RemoveAt(names, i))
             /\ hsnap' = RemoveAt(hsnap, i) /\ UNCHANGED value
             /\ Rec("popvia", [i |-> i - 1], objs[i], 1, objs', names', value)
AppendVia(x) == /\ Step /\ hsnap # NoH /\ ~DictDeclared /\ x \notin Range(objs) /\ Len(objs) < MaxLen
                /\ objs' = Append(objs, x) /\ hsnap' = Append(hsnap, x) /\ UNCHANGED <<names, value>>
                /\ Rec("appendvia", [x |-> x], 0, 1, objs', names, value)
\* h.pop(key) through the kept handle (dictionary style): the named object leaves the current objects, the names and the handle
PopKeyVia(k) == /\ Step /\ hsnap # NoH /\ DictDeclared /\ k \in KeysOf(names)
                /\ LET i == KeyIndex(names, k) x == names[i][2] IN
                   /\ x \in Range(hsnap)
                   /\ objs' = RemoveAt(objs, i) /\ names' = RemoveAt(names, i)
                   /\ hsnap' = RemoveAt(hsnap, IndexOf(hsnap, x)) /\ UNCHANGED value
                   /\ Rec("popkeyvia", [k |-> k], x, 1, objs', names', value)
\* ---- mutators valid for both styles ------------------------------------------------
PopIndex(i) == /\ Step /\ i \in 1..Len(objs)
               /\ objs' = RemoveAt(objs, i)
               /\ names' = (IF names = <<>> THEN <<>> ELSE RemoveAt(names, i)) /\ Keep
               /\ Rec("popindex", [i |-> i - 1], objs[i], 1, objs', names', value)
PopLast == /\ Step /\ objs # <<>>
           /\ objs' = RemoveAt(objs, Len(objs))
           /\ names' = (IF names = <<>> THEN <<>> ELSE RemoveAt(names, Len(objs))) /\ Keep
           /\ Rec("poplast", <<>>, objs[Len(objs)], 1, objs', names', value)
Remove_(x) == /\ Step /\ x \in Range(objs)
              /\ objs' = RemoveAt(objs, IndexOf(objs, x))
              /\ names' = (IF names = <<>> THEN <<>> ELSE RemoveAt(names, IndexOf(objs, x))) /\ Keep
              /\ Rec("remove", [x |-> x], 0, 1, objs', names', value)
\* notes = 2: "at most one" (a mutation that changes nothing may or may not notify)
Clear_ == /\ Step /\ objs' = <<>> /\ names' = <<>> /\ Keep
          /\ Rec("clear", <<>>, 0, IF objs = <<>> THEN 2 ELSE 1, <<>>, <<>>, value)
\* ---- dictionary-style mutators -------------------------------------------------------
ApplyKey(o, nm, k, x) ==   \* objects[k] = x on (o, nm): replace in place, or append
  IF k \in KeysOf(nm)
  THEN LET i == KeyIndex(nm, k) IN <<[o EXCEPT ![i] = x], [nm EXCEPT ![i] = <<k, x>>]>>
  ELSE <<Append(o, x), Append(nm, <<k, x>>)>>
SetKey(k, x) == /\ Step /\ DictDeclared /\ x \notin Range(objs)
                /\ (k \notin KeysOf(names) => Len(objs) < MaxLen)
                /\ objs' = ApplyKey(objs, names, k, x)[1] /\ names' = ApplyKey(objs, names, k, x)[2] /\ Keep
                /\ Rec("setkey", [k |-> k, x |-> x], 0, 1, objs', names', value)
RECURSIVE ApplyPairs(_, _, _)
ApplyPairs(o, nm, prs) == IF prs = <<>> THEN <<o, nm>>
                          ELSE LET r == ApplyKey(o, nm, Head(prs)[1], Head(prs)[2])
                               IN ApplyPairs(r[1], r[2], Tail(prs))
\* objects.update(mapping, **kw): prs = the pairs of the mapping, then the keyword items
Update_(prs, nkw) ==
     /\ Step /\ DictDeclared /\ prs # <<>>
     /\ LET r == ApplyPairs(objs, names, prs) IN
        /\ NoDup(r[1]) /\ Len(r[1]) <= MaxLen
        /\ NoDup([i \in 1..Len(prs) |-> prs[i][1]])
        \* every intermediate state keeps objects unique as well
        /\ \A n \in 1..Len(prs) : NoDup(ApplyPairs(objs, names, SubSeq(prs, 1, n))[1])
        /\ objs' = r[1] /\ names' = r[2] /\ Keep
        /\ Rec("update", [prs |-> prs, nkw |-> nkw], 0, 1, objs', names', value)
PopKey(k) == /\ Step /\ DictDeclared /\ k \in KeysOf(names)
             /\ LET i == KeyIndex(names, k) IN
                /\ objs' = RemoveAt(objs, i) /\ names' = RemoveAt(names, i) /\ Keep
                /\ Rec("popkey", [k |-> k], names[i][2], 1, objs', names', value)
\* objects.pop(k, default) for a name that is not there: the default comes back, nothing is removed
\* (the default x may itself be one of the current objects: it is still only handed back)
PopKeyDefault(k, x) == /\ Step /\ DictDeclared /\ names # <<>> /\ k \notin KeysOf(names)
                       /\ UNCHANGED <<objs, names, value, hsnap>>
                       /\ Rec("popkeydefault", [k |-> k, x |-> x], x, 2, objs, names, value)
\* ---- wholesale replacement ---------------------------------------------------------------
Replace_(xs) == /\ Step /\ NoDup(xs) /\ Len(xs) <= MaxLen
                /\ objs' = xs
                /\ names' = (IF DictDeclared THEN [i \in 1..Len(xs) |-> <<i, xs[i]>>] ELSE <<>>) /\ Keep
                /\ Rec("replace", [xs |-> xs], 0, 1, objs', names', value)
\* ---- value assignment: membership is checked against the current objects ---------------
SetValue(v) == /\ Step /\ ~Multi /\ objs # <<>>
               /\ LET ok == v \in Range(objs) IN
                  /\ value' = IF ok THEN v ELSE value
                  /\ UNCHANGED <<objs, names, hsnap>>
                  /\ Rec("setvalue", [v |-> v], IF ok THEN 1 ELSE 0, 0, objs, names, value')
\* the value assigned is one of the current *names* of a dict-declared selector: names are not objects
SetValueName(k) == /\ Step /\ DictDeclared /\ k \in KeysOf(names)
                   /\ UNCHANGED <<objs, names, value, hsnap>>
                   /\ Rec("setvaluename", [k |-> k], 0, 0, objs, names, value)
SetValues(vs) == /\ Step /\ Multi /\ objs # <<>>
                 /\ LET ok == Range(vs) \subseteq Range(objs) IN
                    /\ value' = IF ok THEN vs ELSE value
                    /\ UNCHANGED <<objs, names, hsnap>>
                    /\ Rec("setvalues", [vs |-> vs], IF ok THEN 1 ELSE 0, 0, objs, names, value')

Seqs(S, n) == UNION {[1..m -> S] : m \in 0..n}
Pairs == {<<k, x>> : k \in Keys, x \in Objects}

Next == \/ \E x \in Objects : Append_(x) \/ Remove_(x) \/ SetValue(x)
        \/ \E i \in 0..MaxLen, x \in Objects : Insert_(i, x) \/ SetIndex(i, x)
        \/ \E xs \in Seqs(Objects, 2) : Extend_(xs) \/ Replace_(xs) \/ SetValues(xs)
        \/ \E i \in 1..MaxLen : PopIndex(i) \/ PopVia(i)
        \/ Grab \/ \E x \in Objects : AppendVia(x)
        \/ \E lo \in 0..MaxLen, hi \in 0..MaxLen, xs \in Seqs(Objects, 2) : SetSlice(lo, hi, xs)
        \/ PopLast \/ Clear_
        \/ \E k \in Keys, x \in Objects : SetKey(k, x)
        \/ \E prs \in Seqs(Pairs, 2), nkw \in 0..1 : (nkw <= Len(prs) /\ Update_(prs, nkw))
        \/ \E k \in Keys : PopKey(k) \/ PopKeyVia(k) \/ SetValueName(k) \/ \E x \in Objects : PopKeyDefault(k, x)

Spec == Init /\ [][Next]_vars

\* ---- C18 on the specification ------------------------------------------------------------
\* the list view, the name mapping and the range describe the same objects in the same order
ViewsAgree == names = <<>> \/ (Len(names) = Len(objs) /\ ValsOf(names) = objs
                               /\ Cardinality(KeysOf(names)) = Len(names))
StyleKept == DictDeclared => (objs = <<>> \/ names # <<>>)
Unique == NoDup(objs)
TypeOK == /\ Len(objs) <= MaxLen /\ nops \in 0..MaxOps
Emit == (RecordHist /\ nops = MaxOps) =>
          PrintT(<<"BEHAVIOUR", ToJson([steps |-> hist, dictdecl |-> DictDeclared, multi |-> Multi])>>)
=============================================================================
