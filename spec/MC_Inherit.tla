---- MODULE MC_Inherit ----
EXTENDS Inherit
Dc(ty, df, b, doc, k, an, inst) == [ty |-> ty, default |-> df, bounds |-> b, doc |-> doc, constant |-> k, an |-> an, inst |-> inst, incl |-> "U", meta |-> "U", nmeta |-> "U", it |-> "U"]
DcX(ty, df, b) == [ty |-> ty, default |-> df, bounds |-> b, doc |-> "U", constant |-> "U", an |-> "U", inst |-> "U", incl |-> "xx", meta |-> "U", nmeta |-> "U", it |-> "U"]
DeclsT == {
  Dc("Parameter", "U", "U", "U", "U", "U", "U"),
  Dc("Parameter", "s", "U", "d1", "U", "U", "U"),
  Dc("Parameter", "1", "U", "U", "T", "U", "U"),
  Dc("Parameter", "5", "U", "U", "U", "U", "T"),
  Dc("Number", "U", "U", "U", "U", "U", "U"),
  Dc("Number", "1", "b02", "U", "U", "U", "U"),
  Dc("Number", "5", "b46", "d2", "U", "U", "U"),
  Dc("Number", "U", "b02", "U", "U", "U", "U"),
  Dc("Number", "5", "U", "U", "U", "U", "U"),
  Dc("Number", "None", "U", "U", "U", "U", "U"),
  Dc("Number", "U", "U", "U", "U", "T", "U"),
  Dc("Number", "1.5", "U", "d1", "U", "U", "U"),
  Dc("Number", "1", "U", "U", "U", "U", "T"),
  Dc("Integer", "U", "U", "U", "U", "U", "U"),
  Dc("Integer", "1", "U", "U", "T", "U", "U"),
  Dc("Integer", "U", "b02", "U", "U", "U", "U"),
  Dc("String", "U", "U", "U", "U", "U", "U"),
  Dc("String", "s", "U", "U", "U", "T", "U"),
  Dc("Number", "0", "b02", "U", "U", "U", "U"),        \* default sitting on a bound
  DcX("Number", "U", "U"),                              \* only makes the inherited bounds exclusive
  DcX("Number", "1", "b02") }
DeclsQ == {d \in DeclsT : d.ty # "String" /\ d.default # "1.5" /\ ~(d.ty = "Integer" /\ d.bounds = "b02") /\ ~(d.ty = "Parameter" /\ d.default = "5")}
DeclsQD == {d \in DeclsQ : d.doc = "U" /\ d.constant = "U" /\ ~(d.ty = "Integer")}
RootQ == {d \in DeclsQ : d.inst = "U" /\ d.constant = "U"}
DcM(ty, df, m, n) == [Dc(ty, df, "U", "U", "U", "U", "U") EXCEPT !.meta = m, !.nmeta = n]
\* other metadata attributes: specified at one level, left unspecified at the next, across type changes
DeclsM == { Dc("Parameter", "U", "U", "U", "U", "U", "U"), Dc("Number", "U", "U", "U", "U", "U", "U"), Dc("Integer", "U", "U", "U", "U", "U", "U"),
            DcM("Parameter", "U", "m1", "U"), DcM("Number", "1", "m1", "n1"), DcM("Number", "U", "m2", "U"), DcM("Number", "U", "U", "n1"),
            DcM("Integer", "U", "m2", "n1"), DcM("Integer", "1", "U", "U") }
\* instantiate=True ancestors whose default does not fit the redeclared type
DeclsI == { Dc("Parameter", "s", "U", "U", "U", "U", "T"), Dc("Parameter", "5", "U", "U", "U", "U", "T"), Dc("Number", "1.5", "U", "U", "U", "U", "T"),
            Dc("String", "s", "U", "U", "U", "U", "T"),
            Dc("Parameter", "t3", "U", "U", "U", "U", "U"), Dc("Tuple", "U", "U", "U", "U", "U", "U"), Dc("Tuple", "t3", "U", "U", "U", "U", "U"),
            Dc("Number", "U", "U", "U", "U", "U", "U"), Dc("Integer", "U", "U", "U", "U", "U", "U"), Dc("Number", "U", "b02", "U", "U", "U", "U"),
            Dc("Parameter", "U", "U", "U", "U", "U", "U"), Dc("String", "U", "U", "U", "U", "U", "U"), Dc("Integer", "U", "U", "d1", "U", "U", "U") }
DcL(df, it) == [Dc("List", df, "U", "U", "U", "U", "U") EXCEPT !.it = it]
\* List with an item type: specified, left unspecified, or explicitly None (any type)
DeclsL == { DcL("l1", "int"), DcL("U", "U"), DcL("ls", "U"), DcL("ls", "None"), DcL("U", "None"), DcL("U", "str"), DcL("l1", "U"),
            Dc("Parameter", "U", "U", "U", "U", "U", "U") }
\* Selector declarations (default "s" = left to the constructor, which takes the first object) among ancestors that allow None
DcS(df, an) == Dc("Selector", df, "U", "U", "U", an, "U")
DeclsS == { DcS("s", "U"), DcS("o", "U"), DcS("None", "U"), DcS("o", "T"), DcS("None", "T"),
            Dc("Parameter", "s", "U", "U", "U", "T", "U"), Dc("String", "s", "U", "U", "U", "T", "U"), Dc("Parameter", "U", "U", "U", "U", "U", "U"),
            Dc("Number", "U", "U", "U", "U", "U", "U"), Dc("String", "U", "U", "U", "U", "U", "U") }
ShapesAll == {"chain", "skip", "diamondBC", "diamondCB"}
ShapesChain == {"chain", "skip"}
ShapesDiamond == {"diamondBC", "diamondCB"}
====
