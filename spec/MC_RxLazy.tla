---- MODULE MC_RxLazy ----
EXTENDS RxLazy
====
