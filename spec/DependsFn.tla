----------------------------- MODULE DependsFn -----------------------------
(***************************************************************************
 C06, last sentence: "the same holds for functions decorated with
 Parameter-object dependencies".  A plain function is decorated with
 param.depends(<Parameter objects ...>, watch=True); its dependency list is a
 sequence of (owner, parameter) pairs over two owner objects, possibly
 interleaved, possibly naming the same owner non-consecutively, some passed as
 keyword dependencies.  A fixed probe program assigns, updates and batches;
 the function must run exactly once for each assignment / update / batch that
 changes at least one of its dependencies, receiving the current values in
 dependency order.
 ***************************************************************************)
EXTENDS Integers, Sequences, FiniteSets, TLC, Json
CONSTANTS DepLists, RecordHist
Program == <<
  [op |-> "set", o |-> 1, items |-> <<<<"x", 1>>>>],
  [op |-> "set", o |-> 1, items |-> <<<<"x", 1>>>>],
  [op |-> "set", o |-> 2, items |-> <<<<"y", 1>>>>],
  [op |-> "update", o |-> 1, items |-> <<<<"x", 0>>, <<"y", 1>>>>],
  [op |-> "update", o |-> 2, items |-> <<<<"x", 1>>, <<"y", 0>>>>],
  [op |-> "batch", o |-> 1, items |-> <<<<"x", 1>>, <<"y", 0>>, <<"x", 0>>>>],
  [op |-> "update", o |-> 1, items |-> <<<<"x", 0>>, <<"y", 0>>>>],
  [op |-> "batch", o |-> 2, items |-> <<<<"y", 1>>, <<"x", 0>>>>]
>>
VARIABLES deps, val, pc, hist
vars == <<deps, val, pc, hist>>
Init == deps \in DepLists /\ val = [o \in {1, 2} |-> [x |-> 0, y |-> 0]] /\ pc = 0 /\ hist = <<>>
RECURSIVE Apply(_, _)
Apply(v, items) == IF items = <<>> THEN v ELSE Apply([v EXCEPT ![Head(items)[1]] = Head(items)[2]], Tail(items))
RECURSIVE ChangedIn(_, _)
ChangedIn(v, items) ==
  IF items = <<>> THEN {}
  ELSE (IF v[Head(items)[1]] # Head(items)[2] THEN {Head(items)[1]} ELSE {})
       \cup ChangedIn([v EXCEPT ![Head(items)[1]] = Head(items)[2]], Tail(items))
DepSet == {<<deps[i].o, deps[i].p>> : i \in 1..Len(deps)}
Step ==
  /\ pc < Len(Program) /\ pc' = pc + 1
  /\ LET s == Program[pc + 1]
         after == [val EXCEPT ![s.o] = Apply(val[s.o], s.items)]
         hit == \E p \in ChangedIn(val[s.o], s.items) : <<s.o, p>> \in DepSet
     IN /\ val' = after
        /\ hist' = IF RecordHist
                   THEN Append(IF pc = 0 THEN <<[a |-> "init", deps |-> deps]>> ELSE hist,
                               [a |-> s.op, o |-> s.o, items |-> s.items, calls |-> IF hit THEN 1 ELSE 0,
                                args |-> [i \in 1..Len(deps) |-> after[deps[i].o][deps[i].p]]])
                   ELSE hist
  /\ UNCHANGED deps
Next == Step
Spec == Init /\ [][Next]_vars
TypeOK == pc \in 0..Len(Program)
Emit == (RecordHist /\ pc = Len(Program)) => PrintT(<<"BEHAVIOUR", ToJson([steps |-> hist])>>)
=============================================================================
