---- MODULE MC_Copy ----
EXTENDS Copy
MAll == {"deepcopy", "pickle0", "pickle2", "pickle5"}
MQuick == {"deepcopy", "pickle2"}
====
