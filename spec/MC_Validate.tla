---- MODULE MC_Validate ----
EXTENDS Validate
TAll == {"Parameter", "Number", "Integer", "Magnitude", "Date", "CalendarDate", "Boolean", "String", "Bytes",
         "Callable", "Dict", "Tuple", "NumericTuple", "XYCoordinates", "Range", "DateRange", "CalendarDateRange",
         "List", "HookList", "Selector", "ListSelector", "ClassSelector", "Color"}
====
