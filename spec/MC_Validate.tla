---- MODULE MC_Validate ----
EXTENDS Validate
TAll == {"Parameter", "Number", "Integer", "Magnitude", "Date", "CalendarDate", "Boolean", "String", "Bytes",
         "Callable", "Action", "Event", "Dict", "Tuple", "NumericTuple", "XYCoordinates", "Range", "DateRange", "CalendarDateRange",
         "List", "HookList", "Selector", "ListSelector", "ClassSelector", "Color"}
====
