------------------------------- MODULE RxOps -------------------------------
(***************************************************************************
 C09, "every operator form Python can dispatch to the expression, including
 all reflected operators, is supported": the operator table.  A state is one
 operator, one form (rx <op> const, const <op> rx, rx <op> rx, or unary) and
 operand values from a small set; the expected result is the uninterpreted
 term Apply(op, x, y) -- the harness evaluates the term with Python's own
 operator on the plain operands and compares value / exception class with
 what the reactive expression yields before and after an update of the
 reactive operand.
 ***************************************************************************)
EXTENDS Integers, Sequences, TLC, Json
CONSTANT RecordHist
BinaryOps == {"add", "sub", "mul", "truediv", "floordiv", "mod", "divmod", "pow", "lshift", "rshift", "and", "or", "xor", "matmul",
              "lt", "le", "eq", "ne", "gt", "ge"}
UnaryOps == {"neg", "pos", "abs", "invert", "round", "trunc", "floor", "ceil",
             "round0", "round1", "roundneg"}        \* round(x, 0), round(x, 1), round(x, -1): __round__ with ndigits
\* operators that take a third operand: pow(x, y, 5)
TernaryOps == {"pow3"}
Forms == {"rx_const", "const_rx", "rx_rx"}
Operands == {"i0", "i3", "ineg", "f25", "f1234", "true", "mat"}       \* 0, 3, -2, 2.5, 12.34, True, an object with __matmul__/__rmatmul__
VARIABLES op, form, x, y, x2
vars == <<op, form, x, y, x2>>
Init == \/ /\ op \in BinaryOps /\ form \in Forms /\ x \in Operands /\ y \in Operands /\ x2 \in Operands /\ x2 # x
           /\ (op = "matmul" <=> ("mat" \in {x, y, x2}))
        \/ /\ op \in TernaryOps /\ form \in {"rx_const", "rx_rx"} /\ x \in Operands \ {"mat"} /\ y \in Operands \ {"mat"} /\ x2 \in Operands \ {"mat"} /\ x2 # x
        \/ /\ op \in UnaryOps /\ form = "unary" /\ x \in Operands \ {"mat"} /\ y = "i0" /\ x2 \in Operands \ {"mat"} /\ x2 # x
Next == UNCHANGED vars
Spec == Init /\ [][Next]_vars
Emit == RecordHist => PrintT(<<"BEHAVIOUR", ToJson([op |-> op, form |-> form, x |-> x, y |-> y, x2 |-> x2])>>)
=============================================================================
