---- MODULE MC_SelectorObjs ----
EXTENDS SelectorObjs
O4 == {1, 2, 3, 4}
O3 == {1, 2, 3}
K3 == {1, 2, 3}
K2 == {1, 2}
====
