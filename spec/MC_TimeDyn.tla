---- MODULE MC_TimeDyn ----
EXTENDS TimeDyn
S3 == {1, 2, 3}
G3 == <<"A", "B", "A">>      \* slots 1 and 3: distinct generator objects with the same name and seed
I3 == <<1, 1, 2>>            \* slots 1, 2 on instance 1; slot 3 on instance 2
T6 == -2..3
S4 == {1, 2, 3, 4}
G4 == <<"A", "B", "A", "K">>   \* slot 4: a plain counter callable (not a function of time)
I4 == <<1, 1, 2, 2>>
S5 == {1, 2, 3, 4, 5}
G5 == <<"A", "B", "A", "K", "C">>   \* slot 5: the default generator of a class attribute, used through the class
I5 == <<1, 1, 2, 2, 0>>
S6 == {1, 2, 3, 4, 5, 6}
G6 == <<"A", "B", "A", "K", "C", "N">>   \* slot 6: a counter under a parameter that is not time-dependent
I6 == <<1, 1, 2, 2, 0, 1>>
====
