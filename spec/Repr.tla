-------------------------------- MODULE Repr --------------------------------
(***************************************************************************
 C20: the text produced by .param.pprint() / script_repr() rebuilds an equal
 object.

 One Parameterized class per constructor-signature shape
   "kw"      __init__(self, **params)
   "pos2"    __init__(self, a, b, **params)
   "poskw"   __init__(self, a, b=7, **params)      (signature default 7 differs
                                                     from the Parameter default 4)
   "closed"  __init__(self, a, b=7)                 (no **params)
   "kwonly"  __init__(self, a, *, b=7)              (b keyword-only, no **params)
   "kwreq"   __init__(self, a, *, b)                (b keyword-only and required, no **params)
 with parameters a, b (numbers), s (string), l (list), t (tuple-valued),
 sub (None or a nested Parameterized object) and the name.  A state chooses
 the shape and a value token for every parameter.  The module predicts the
 abstract call the text must denote: which values appear positionally and
 which keywords are present (exactly the parameters that differ from what the
 constructor would otherwise produce), and that applying the abstract call to
 the abstract constructor gives back the original values.
 ***************************************************************************)
EXTENDS Integers, Sequences, FiniteSets, TLC, Json
CONSTANTS Shapes, AVals, BVals, SVals, LVals, TVals, SubVals, DVals, NameVals, DefAVals, RecordHist

PNames == {"a", "b", "s", "l", "t", "sub", "d"}
\* d: a dictionary whose declared default is non-empty ({"k": 1, "m": 2}); tokens: "default", "empty",
\* "subset" ({"k": 1}), "changed" ({"k": 1, "m": 3}), "superset"
Default0 == [a |-> "0", b |-> "4", s |-> "empty", l |-> "empty", t |-> "none", sub |-> "none", d |-> "default"]
SigDefaultB == "7"

VARIABLES shape, val, name,
          defa     \* the class-level default of `a` in force when the text is produced: "0" as declared, or
                   \* reassigned on an intermediate class of the hierarchy after a first instance existed
vars == <<shape, val, name, defa>>
Default == [Default0 EXCEPT !.a = defa]

Init == /\ shape \in Shapes /\ defa \in DefAVals
        /\ val \in [a : AVals, b : BVals, s : SVals, l : LVals, t : TVals, sub : SubVals, d : DVals]
        /\ name \in NameVals
        \* a constructor without **params cannot receive the other parameters: they keep their defaults
        /\ (shape \in {"closed", "kwonly", "kwreq"} => /\ \A p \in PNames \ {"a", "b"} : val[p] = Default[p]
                                /\ name = "auto")
Next == UNCHANGED vars
Spec == Init /\ [][Next]_vars

Changed == {p \in PNames : val[p] # Default[p]}
Positional == CASE shape = "kw" -> <<>> [] shape = "pos2" -> <<"a", "b">> [] OTHER -> <<"a">>
PosSet == {Positional[i] : i \in 1..Len(Positional)}
ExplicitName == name # "auto"
Keywords ==
  (CASE shape \in {"kw", "pos2"} -> Changed \ PosSet
     [] shape = "poskw" -> (Changed \ {"a", "b"}) \cup (IF val.b # SigDefaultB THEN {"b"} ELSE {})
     [] shape \in {"closed", "kwonly"} -> IF val.b # SigDefaultB THEN {"b"} ELSE {}
     [] shape = "kwreq" -> {"b"})                   \* a required argument is always written
  \cup (IF ExplicitName /\ shape \notin {"closed", "kwonly", "kwreq"} THEN {"name"} ELSE {})

\* applying the predicted call to the abstract constructor
Rebuilt ==
  [p \in PNames |->
     IF p \in PosSet \/ p \in Keywords THEN val[p]
     ELSE IF p = "b" /\ shape \in {"poskw", "closed", "kwonly"} THEN SigDefaultB      \* the signature default is passed on
     ELSE Default[p]]
\* C20 on the specification: the predicted text denotes a call that rebuilds the original values
Rebuilds == Rebuilt = val
KeywordsOnlyWhenNeeded == \A p \in Keywords \ {"name", "b"} : val[p] # Default[p]

Emit == RecordHist =>
  PrintT(<<"BEHAVIOUR", ToJson([shape |-> shape, val |-> val, name |-> name, defa |-> defa, positional |-> Positional, keywords |-> Keywords])>>)
=============================================================================
