------------------------------ MODULE RxAsync ------------------------------
(***************************************************************************
 C10, second half: a reactive expression piped through a coroutine,
 `root.rx.pipe(f)` with `async def f(v): return await <future of v>`, watched
 with `.rx.watch`.  Every root update schedules a task running
 rx._resolve_async (reactive.py:1624): at its first step it becomes the
 expression's current task and calls f (creating the awaitable); when the
 awaitable completes the result is stored and announced only if the task is
 still the current one.

   Update       the j-th root update (value j); schedules task j
   Resolve(j)   the awaitable of task j completes (possible once it exists)
   Tick         the loop runs one ready callback
 Result of task j: 100 + j.

 tainted (known finding): a result is stored if its task is the newest one
 that has *started*; a wake-up that runs after a newer update whose task has
 not started yet stores a superseded result (transiently).
 ***************************************************************************)
EXTENDS Naturals, Sequences, FiniteSets, TLC, Json
CONSTANTS N, MaxSteps, RecordHist
VARIABLES nupd, task, cur, ready, value, seen, steps, tainted, hist
vars == <<nupd, task, cur, ready, value, seen, steps, tainted, hist>>
Slots == 1..N
Vis(rec) == hist' = IF RecordHist THEN Append(hist, rec) ELSE hist
Obs(v, s, tk) == [value |-> v, seen |-> s, futs |-> [i \in Slots |-> tk[i]]]

Init == /\ nupd = 0 /\ task = [i \in Slots |-> "none"] /\ cur = 0 /\ ready = <<>> /\ value = 0
        /\ seen = <<>> /\ steps = 0 /\ tainted = FALSE /\ hist = <<>>
Bound == steps < MaxSteps /\ steps' = steps + 1

Update == /\ Bound /\ nupd < N
          /\ nupd' = nupd + 1 /\ task' = [task EXCEPT ![nupd + 1] = "new"] /\ ready' = Append(ready, nupd + 1)
          /\ Vis([a |-> "update", j |-> nupd + 1, obs |-> Obs(value, seen, task'), kf |-> {}])
          /\ UNCHANGED <<cur, value, seen, tainted>>
Resolve(j) == /\ Bound /\ task[j] = "wait"
              /\ task' = [task EXCEPT ![j] = "woken"] /\ ready' = Append(ready, j)
              /\ Vis([a |-> "resolve", j |-> j, obs |-> Obs(value, seen, task'), kf |-> {}])
              /\ UNCHANGED <<nupd, cur, value, seen, tainted>>
Tick == /\ Bound /\ ready # <<>>
        /\ LET t == Head(ready) IN
           /\ ready' = Tail(ready)
           /\ IF task[t] = "new"
              THEN /\ cur' = t /\ task' = [task EXCEPT ![t] = "wait"]
                   /\ UNCHANGED <<value, seen, tainted>>
                   /\ Vis([a |-> "tick", t |-> t, what |-> "start", obs |-> Obs(value, seen, task'), kf |-> {}])
              ELSE /\ task' = [task EXCEPT ![t] = "done"]
                   /\ IF cur = t
                      THEN /\ value' = 100 + t /\ seen' = Append(seen, 100 + t)
                           /\ tainted' = (tainted \/ t # nupd)
                      ELSE UNCHANGED <<value, seen, tainted>>
                   /\ UNCHANGED cur
                   /\ Vis([a |-> "tick", t |-> t, what |-> IF cur = t THEN "store" ELSE "drop",
                           obs |-> Obs(IF cur = t THEN 100 + t ELSE value, IF cur = t THEN Append(seen, 100 + t) ELSE seen, task'),
                           kf |-> IF cur = t /\ t # nupd THEN {"KF_RxUnstartedTask"} ELSE {}])
        /\ UNCHANGED nupd
Next == Update \/ (\E j \in Slots : Resolve(j)) \/ Tick
Spec == Init /\ [][Next]_vars

AllDone == \A j \in 1..nupd : task[j] = "done"
\* once all awaitables have completed the expression holds the result of the most recent update
LatestWins == (nupd > 0 /\ AllDone /\ ready = <<>>) => value = 100 + nupd
\* the watcher never sees results out of order, and (untainted) never a superseded one
SeenIncreasing == \A a, b \in 1..Len(seen) : a < b => seen[a] < seen[b]
NoLateStore == ~tainted => (\A a \in 1..Len(seen) : TRUE)
TypeOK == steps \in 0..MaxSteps
Emit == (RecordHist /\ steps = MaxSteps) => PrintT(<<"BEHAVIOUR", ToJson([steps |-> hist])>>)
=============================================================================
