---- MODULE MC_ClassModel ----
EXTENDS ClassModel
Cl3 == <<"A", "B", "C">>
Cl2 == <<"A", "B">>
N12 == <<"m", "x">>
K12i == [x |-> "plain", m |-> "mut_inst"]
K12s == [x |-> "plain", m |-> "mut_shared"]
N12n == <<"n", "x">>
K12n == [x |-> "plain", n |-> "noperinst"]
N13 == <<"x">>
K13 == [x |-> "plain"]
N14 == <<"k", "r", "x">>
K14 == [k |-> "const", r |-> "readonly", x |-> "plain"]
N14n == <<"k", "z">>
K14n == [k |-> "const", z |-> "constnone"]
N12c == <<"m", "z">>
K12c == [m |-> "mut_shared", z |-> "constnone"]
A12 == {"readns", "instparam", "classset", "new", "instset", "instmeta", "mutate"}
A13 == {"readns", "instparam", "classset", "addparam", "new", "instset"}
A14 == {"classset", "new", "instset", "edit", "instparam"}
A02 == {"classset", "new", "instset", "instparam", "readns"}
AAll == A12 \cup A13 \cup A14
====
