---- MODULE MC_ClassModel ----
EXTENDS ClassModel
Cl3 == <<"A", "B", "C">>
Cl2 == <<"A", "B">>
Mro3 == [A |-> <<"A">>, B |-> <<"B", "A">>, C |-> <<"C", "B", "A">>]
Mro2 == [A |-> <<"A">>, B |-> <<"B", "A">>]
ClD == <<"A", "B", "C", "D">>                 \* a diamond: B(A), C(A), D(B, C)
MroD == [A |-> <<"A">>, B |-> <<"B", "A">>, C |-> <<"C", "A">>, D |-> <<"D", "B", "C", "A">>]
N12sel == <<"s", "x">>
K12sel0 == [x |-> "plain", s |-> "sel0"]
K12sel1 == [x |-> "plain", s |-> "sel1"]
N12 == <<"m", "x">>
K12i == [x |-> "plain", m |-> "mut_inst"]
K12s == [x |-> "plain", m |-> "mut_shared"]
N12n == <<"n", "x">>
K12n == [x |-> "plain", n |-> "noperinst"]
N13 == <<"x">>
K13 == [x |-> "plain"]
N14 == <<"k", "r", "x">>
K14 == [k |-> "const", r |-> "readonly", x |-> "plain"]
N14n == <<"k", "z">>
K14n == [k |-> "const", z |-> "constnone"]
N12c == <<"m", "z">>
K12c == [m |-> "mut_shared", z |-> "constnone"]
A12 == {"readns", "instparam", "classset", "new", "instset", "instmeta", "mutate", "skipref", "gen", "trigger", "updctx", "shared"}
A12sel == {"instparam", "classset", "new", "instset", "objsappend", "readns"}
A13d == {"readns", "classset", "addparam", "new", "instset", "classmeta"}
A13 == {"readns", "instparam", "classset", "addparam", "new", "instset"}
A14 == {"classset", "new", "instset", "edit", "instparam", "instconst"}
A02 == {"classset", "new", "instset", "instparam", "readns"}
AAll == A12 \cup A13 \cup A14 \cup A12sel \cup A13d
====
