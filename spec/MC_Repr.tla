---- MODULE MC_Repr ----
EXTENDS Repr
ShAll == {"kw", "pos2", "poskw", "closed", "kwonly", "kwreq"}
AV == {"0", "3", "neg", "inf", "ninf", "big", "none"}
AVq == {"0", "neg", "inf", "ninf", "none"}
BV == {"4", "7", "9", "none"}
SV == {"empty", "plain", "escapes", "unicode"}
SVq == {"empty", "escapes"}
LV == {"empty", "nested", "onetuple", "withinf", "withninf"}
LVq == {"empty", "onetuple", "withinf", "withninf"}
TV == {"none", "pair", "one", "eset", "set1"}       \* eset: set(), set1: {3}
TVq == {"none", "one", "eset"}
SubV == {"none", "inner", "innerchanged"}
DV == {"default", "empty", "subset", "changed", "superset"}
DVq == {"default", "empty", "subset"}
DefA == {"0", "3"}
NV == {"auto", "explicit", "autolike"}
====
