CONSTANTS
 Params <- P2
 Kind <- K2
 Dom <- D2
 Bad = 9
 WCfgs <- WC3
 InitWs <- IW0
 Acts <- ActsAll
 MaxW = 2
 MaxOps = 3
 MaxStack = 6
 MaxFaults = 2
 RecordHist = TRUE
 OnAbort = "drop"
INIT Init
NEXT Next
CHECK_DEADLOCK FALSE
INVARIANT Emit
