------------------------------- MODULE Serial -------------------------------
(***************************************************************************
 C15 and C16: JSON serialization of parameter values and the JSON schema
 generated for them.

 For a Parameter type t with configuration c and a valid value v:
   Ser(t, v)        the JSON tree serialize_parameters() must produce
   Deser(t, j)      the value deserialize_parameters() + constructor restore
   Schema(t, c)     the JSON-Schema tree param.schema() must produce
   Validates(s, j)  JSON-Schema (draft 7) validation, for the keywords used
 TLC checks over the whole enumerated space that Deser(t, Ser(t, v)) = v with
 the same kind (tuple stays tuple, date stays date, int stays int), that only
 JSON kinds appear, that Ser(t, v) validates against Schema(t, c) for every
 valid v, and that serialized numbers outside the hard bounds of a Number /
 Integer do not validate.

 JSON trees: [j |-> "null"] [j |-> "bool", b] [j |-> "num", n2, int] [j |-> "str", s]
 [j |-> "arr", items] [j |-> "obj", keys, items].  Numbers carry n2 = 2 x value.
 ***************************************************************************)
EXTENDS Integers, Sequences, FiniteSets, TLC, Json
CONSTANTS Types, RecordHist

NoB == -9999
\* ---- values (as in Validate.tla) -----------------------------------------------------------
None == [k |-> "none"]
I(n) == [k |-> "int", n2 |-> 2 * n]
F(n2) == [k |-> "float", n2 |-> n2]
S(x) == [k |-> "str", s |-> x]
Bo(x) == [k |-> "bool", b |-> x]
D(d) == [k |-> "date", t2 |-> 2 * d]                  \* calendar date: day d
DT(d, h) == [k |-> "datetime", t2 |-> 2 * d + h]       \* datetime: day d at midnight (h = 0) or 12:30:15.000250 (h = 1)
Tup(items) == [k |-> "tuple", items |-> items]
Lst(items) == [k |-> "list", items |-> items]
Dct(keys, vals) == [k |-> "dict", keys |-> keys, items |-> vals]

\* ---- JSON trees --------------------------------------------------------------------------------
JNull == [j |-> "null"]
JBool(b) == [j |-> "bool", b |-> b]
JNum(n2, isint) == [j |-> "num", n2 |-> n2, int |-> isint]
JStr(s) == [j |-> "str", s |-> s]
JArr(items) == [j |-> "arr", items |-> items]
JObj(keys, vals) == [j |-> "obj", keys |-> keys, items |-> vals]
DateStr(v) == IF v.k = "date" THEN [j |-> "str", s |-> "date", t2 |-> v.t2] ELSE [j |-> "str", s |-> "datetime", t2 |-> v.t2]

\* plain JSON rendering of a value built from JSON-native things
RECURSIVE Plain(_)
Plain(v) ==
  CASE v.k = "none" -> JNull
    [] v.k = "bool" -> JBool(v.b)
    [] v.k = "int" -> JNum(v.n2, TRUE)
    [] v.k = "float" -> JNum(v.n2, FALSE)
    [] v.k = "str" -> JStr(v.s)
    [] v.k \in {"tuple", "list"} -> JArr([i \in 1..Len(v.items) |-> Plain(v.items[i])])
    [] v.k = "dict" -> JObj(v.keys, [i \in 1..Len(v.items) |-> Plain(v.items[i])])

\* what the serializer of Parameter type t produces for value v
Ser(t, v) ==
  IF v.k = "none" THEN JNull
  ELSE CASE t \in {"Date"} -> [j |-> "str", s |-> "datetime", t2 |-> v.t2]      \* always the date-time format
         [] t = "CalendarDate" -> DateStr(v)
         [] t \in {"DateRange", "CalendarDateRange"} -> JArr([i \in 1..Len(v.items) |-> DateStr(v.items[i])])
         [] OTHER -> Plain(v)

\* what deserialization followed by the constructor restores
RECURSIVE FromPlain(_)
FromPlain(j) ==
  CASE j.j = "null" -> None
    [] j.j = "bool" -> Bo(j.b)
    [] j.j = "num" -> IF j.int THEN [k |-> "int", n2 |-> j.n2] ELSE F(j.n2)
    [] j.j = "str" -> S(j.s)
    [] j.j = "arr" -> Lst([i \in 1..Len(j.items) |-> FromPlain(j.items[i])])
    [] j.j = "obj" -> Dct(j.keys, [i \in 1..Len(j.items) |-> FromPlain(j.items[i])])
DateOf(j) == IF j.s = "date" THEN [k |-> "date", t2 |-> j.t2] ELSE [k |-> "datetime", t2 |-> j.t2]
Deser(t, j) ==
  IF j.j = "null" THEN None
  ELSE CASE t \in {"Tuple", "NumericTuple", "XYCoordinates", "Range"} ->
              Tup([i \in 1..Len(j.items) |-> FromPlain(j.items[i])])
         [] t = "Date" -> [k |-> "datetime", t2 |-> j.t2]
         [] t = "CalendarDate" -> [k |-> "date", t2 |-> j.t2]
         [] t \in {"DateRange", "CalendarDateRange"} -> Tup([i \in 1..Len(j.items) |-> DateOf(j.items[i])])
         [] OTHER -> FromPlain(j)

\* ---- configurations and the valid values enumerated for them -------------------------------------
Cfg0 == [lo |-> NoB, hi |-> NoB, il |-> TRUE, ih |-> TRUE, an |-> FALSE, it |-> "none", objs |-> "strs", cls |-> "int",
         cos |-> TRUE,    \* cos = FALSE: check_on_set=False -- a value outside the objects is accepted and becomes one of them
         soft |-> FALSE,  \* soft: softbounds=(3, 3.5) declared as well -- a hint for user interfaces that constrains nothing
         dn |-> FALSE]    \* dn: declared without a default, which leaves the default None (ListSelector; Selector without objects)
BOOL == {TRUE, FALSE}
Norm(CS) == {c \in CS : (c.lo = NoB => c.il) /\ (c.hi = NoB => c.ih)}
Bounded == Norm({[Cfg0 EXCEPT !.lo = lo, !.hi = hi, !.il = il, !.ih = ih, !.an = an] :
                   lo \in {NoB, 0, 1, 2}, hi \in {NoB, 8}, il \in BOOL, ih \in BOOL, an \in BOOL})      \* (lo = 1: the bound 0.5)
AN == {[Cfg0 EXCEPT !.an = an] : an \in BOOL}
Cfgs(t) ==
  CASE t \in {"Integer", "Number"} -> Bounded \cup {[b EXCEPT !.soft = TRUE] : b \in Bounded}
    [] t = "Range" -> Bounded
    [] t = "List" -> {[Cfg0 EXCEPT !.an = an, !.it = it] : an \in BOOL, it \in {"none", "int", "str", "float"}}
    [] t = "Selector" -> {[Cfg0 EXCEPT !.an = an, !.objs = o] : an \in BOOL, o \in {"strs", "ints", "mixed", "dictints"}}
                         \cup {[Cfg0 EXCEPT !.an = an, !.objs = "empty", !.dn = TRUE] : an \in BOOL}
                         \cup {[Cfg0 EXCEPT !.an = an, !.objs = o, !.cos = FALSE] : an \in BOOL, o \in {"ints", "dictints"}}
    [] t = "ListSelector" -> {[Cfg0 EXCEPT !.an = an, !.objs = o, !.dn = dn] : an \in BOOL, o \in {"strs", "ints", "mixed", "dictints"}, dn \in BOOL}
    [] t = "ClassSelector" -> {[Cfg0 EXCEPT !.an = an, !.cls = c] : an \in BOOL, c \in {"int", "str", "float", "intstr", "bool", "list", "dict"}}
    [] OTHER -> AN

Ord(v) == v.n2
InB(v, c) == /\ (c.lo = NoB \/ IF c.il THEN Ord(v) >= c.lo ELSE Ord(v) > c.lo)
             /\ (c.hi = NoB \/ IF c.ih THEN Ord(v) <= c.hi ELSE Ord(v) < c.hi)
Ints == {I(-1), I(0), I(1), I(2), I(4), I(5)}
Nums == Ints \cup {F(-3), F(0), F(1), F(3), F(8), F(9)}
ObjsOf(c) == CASE c.objs = "strs" -> {S("a"), S("b")} [] c.objs = "ints" -> {I(1), I(2)} [] c.objs = "mixed" -> {I(1), S("a"), F(3)}
               [] c.objs = "empty" -> {}
               [] c.objs = "dictints" -> {I(1), I(2)}        \* declared as a dict {"one": 1, "two": 2}: the objects are its values
\* (with check_on_set = FALSE the string "zz" has been assigned, and so belongs to the objects, by the time the schema is taken)
AllObjs(c) == ObjsOf(c) \cup (IF c.cos THEN {} ELSE {S("zz")})
Nullable(c) == c.an \/ c.dn          \* None is a state the object can be in
Vals(t, c) ==
  (IF Nullable(c) THEN {None} ELSE {}) \cup
  CASE t = "Integer" -> {v \in Ints : InB(v, c)}
    [] t = "Number" -> {v \in Nums : InB(v, c)}
    [] t = "String" -> {S(""), S("a1"), S("unicode"), S("null"), S("1")}     \* strings that look like other JSON
    [] t = "Boolean" -> {Bo(TRUE), Bo(FALSE)}
    [] t = "Color" -> {S("#ff0000"), S("#abc")}
    [] t = "Tuple" -> {Tup(<<I(1), S("a1")>>), Tup(<<F(3), None>>), Tup(<<Lst(<<I(1)>>), Bo(TRUE)>>)}
    [] t \in {"NumericTuple", "XYCoordinates"} -> {Tup(<<I(1), F(3)>>), Tup(<<F(0), I(-1)>>)}
    [] t = "Range" -> {Tup(<<a, b>>) : a \in {v \in {I(0), F(1), I(2)} : InB(v, c)}, b \in {v \in {I(2), F(5), I(4)} : InB(v, c)}}
    \* (days 2, 3: January 2020; days 22, 23: 2 and 3 January of the year 33 -- a year below 1000)
    [] t = "Date" -> {DT(2, 0), DT(3, 1), DT(22, 1)}
    [] t = "CalendarDate" -> {D(2), D(3), D(22)}
    [] t = "DateRange" -> {Tup(<<D(2), D(3)>>), Tup(<<DT(2, 0), DT(3, 1)>>), Tup(<<DT(2, 1), DT(2, 1)>>), Tup(<<DT(22, 0), DT(3, 1)>>)}
    [] t = "CalendarDateRange" -> {Tup(<<D(2), D(3)>>), Tup(<<D(2), D(2)>>), Tup(<<D(22), D(23)>>)}
    [] t = "List" -> (CASE c.it = "none" -> {Lst(<<>>), Lst(<<I(1), S("a1"), None>>), Lst(<<Lst(<<I(1)>>), Dct(<<"z">>, <<F(3)>>)>>)}
                        [] c.it = "int" -> {Lst(<<>>), Lst(<<I(1), I(2)>>)}
                        [] c.it = "str" -> {Lst(<<S("a1")>>), Lst(<<>>)}
                        [] c.it = "float" -> {Lst(<<F(3), F(0)>>)})
    [] t = "Dict" -> {Dct(<<>>, <<>>), Dct(<<"k">>, <<I(1)>>), Dct(<<"k", "m">>, <<Lst(<<I(1), Dct(<<"z">>, <<None>>)>>), S("a1")>>)}
    [] t = "Selector" -> AllObjs(c)
    [] t = "ListSelector" -> {Lst(<<>>)} \cup {Lst(<<x>>) : x \in ObjsOf(c)} \cup {Lst(<<x, y>>) : x \in ObjsOf(c), y \in ObjsOf(c)}
    [] t = "ClassSelector" -> (CASE c.cls = "int" -> {I(1)} [] c.cls = "str" -> {S("a1")} [] c.cls = "float" -> {F(3)}
                                 [] c.cls = "intstr" -> {I(2), S("a1")} [] c.cls = "bool" -> {Bo(TRUE)}
                                 [] c.cls = "list" -> {Lst(<<I(1)>>)} [] c.cls = "dict" -> {Dct(<<"k">>, <<I(1)>>)})

\* ---- schemas ---------------------------------------------------------------------------------------
NoSchema == [ty |-> "absent"]
Sch(ty) == [ty |-> ty, min |-> NoB, max |-> NoB, xmin |-> NoB, xmax |-> NoB, minItems |-> NoB, maxItems |-> NoB,
            items |-> NoSchema, enum |-> {}, anyOf |-> <<>>]
WithBounds(s, c) ==
  [s EXCEPT !.min = IF c.lo # NoB /\ c.il THEN c.lo ELSE NoB, !.xmin = IF c.lo # NoB /\ ~c.il THEN c.lo ELSE NoB,
            !.max = IF c.hi # NoB /\ c.ih THEN c.hi ELSE NoB, !.xmax = IF c.hi # NoB /\ ~c.ih THEN c.hi ELSE NoB]
LitType(v) == CASE v.k = "int" -> "integer" [] v.k = "float" -> "number" [] v.k = "str" -> "string" [] v.k = "none" -> "null"
ClsSchema(cn) == CASE cn = "int" -> Sch("integer") [] cn = "str" -> Sch("string") [] cn = "float" -> Sch("number")
                   [] cn = "intstr" -> [Sch("any") EXCEPT !.anyOf = <<Sch("integer"), Sch("string")>>]
                   [] cn = "bool" -> Sch("boolean") [] cn = "list" -> Sch("array") [] cn = "dict" -> Sch("object")
EnumOf(c) == {Plain(x) : x \in AllObjs(c)}
Base(t, c) ==
  CASE t = "Integer" -> WithBounds(Sch("integer"), c)
    [] t = "Number" -> WithBounds(Sch("number"), c)
    [] t = "String" -> Sch("string")
    [] t = "Boolean" -> Sch("boolean")
    [] t = "Tuple" -> [Sch("array") EXCEPT !.minItems = 2, !.maxItems = 2]
    [] t \in {"NumericTuple", "XYCoordinates", "Range"} -> [Sch("array") EXCEPT !.minItems = 2, !.maxItems = 2]
    [] t \in {"Date", "CalendarDate"} -> Sch("string")
    [] t = "List" -> IF c.it = "none" THEN Sch("array") ELSE [Sch("array") EXCEPT !.items = ClsSchema(c.it)]
    [] t = "Dict" -> Sch("object")
    [] t = "Selector" -> [Sch("any") EXCEPT !.enum = EnumOf(c)]
    [] t = "ListSelector" -> [Sch("array") EXCEPT !.items = [Sch("any") EXCEPT !.enum = EnumOf(c)]]
    [] t = "ClassSelector" -> ClsSchema(c.cls)
Schema(t, c) == IF Nullable(c) THEN [Sch("any") EXCEPT !.anyOf = <<Base(t, c), Sch("null")>>] ELSE Base(t, c)

JType(j) == CASE j.j = "null" -> "null" [] j.j = "bool" -> "boolean" [] j.j = "str" -> "string"
              [] j.j = "arr" -> "array" [] j.j = "obj" -> "object" [] j.j = "num" -> IF j.int THEN "integer" ELSE "number"
TypeOK1(ty, j) == ty = "any" \/ JType(j) = ty \/ (ty = "number" /\ JType(j) = "integer")
                  \/ (ty = "integer" /\ j.j = "num" /\ j.n2 % 2 = 0)       \* 2.0 is an integer for JSON Schema
RECURSIVE Validates(_, _)
Validates(s, j) ==
  /\ TypeOK1(s.ty, j)
  /\ (j.j = "num" => /\ (s.min = NoB \/ j.n2 >= s.min) /\ (s.xmin = NoB \/ j.n2 > s.xmin)
                     /\ (s.max = NoB \/ j.n2 <= s.max) /\ (s.xmax = NoB \/ j.n2 < s.xmax))
  /\ (j.j = "arr" => /\ (s.minItems = NoB \/ Len(j.items) >= s.minItems) /\ (s.maxItems = NoB \/ Len(j.items) <= s.maxItems)
                     /\ (s.items = NoSchema \/ \A i \in 1..Len(j.items) : Validates(s.items, j.items[i])))
  /\ (s.enum = {} \/ j \in s.enum)
  /\ (s.anyOf = <<>> \/ \E i \in 1..Len(s.anyOf) : Validates(s.anyOf[i], j))

\* ---- state: one (type, configuration) -------------------------------------------------------------
VARIABLES t, c
vars == <<t, c>>
Init == t \in Types /\ c \in Cfgs(t) /\ Vals(t, c) # {}
Next == UNCHANGED vars
Spec == Init /\ [][Next]_vars

\* ---- C15 / C16 on the specification ----------------------------------------------------------------
RoundTrip == \A v \in Vals(t, c) : Deser(t, Ser(t, v)) = v
SchemaTypes == {"Integer", "Number", "String", "Boolean", "Tuple", "NumericTuple", "XYCoordinates", "Range", "Date", "CalendarDate",
                "List", "Dict", "Selector", "ListSelector", "ClassSelector"}
ValidStateValidates == t \in SchemaTypes => \A v \in Vals(t, c) : Validates(Schema(t, c), Ser(t, v))
Probes == {JNum(n2, n2 % 2 = 0) : n2 \in {-4, -2, -1, 0, 1, 2, 3, 4, 7, 8, 9, 10}}
OutOfBoundsRejected ==
  t \in {"Integer", "Number"} =>
     \A j \in Probes : (~InB([n2 |-> j.n2], c)) => ~Validates(Schema(t, c), j)

\* serialization of a whole object {x, other} under subset=: exactly the named parameters, the empty subset included
ParamNames == {"x", "values"}      \* ("values": a parameter named like an attribute of the .param namespace)
SubsetKeys == [sub \in SUBSET ParamNames |-> sub]
\* a class that also declares a read-only and a constant parameter must be rebuilt from its own serialization
\* as well (checked once, with the Boolean table; known finding: the read-only value is emitted and then refused)
WithReadonly == t = "Boolean" /\ ~c.an
Table == [t |-> t, c |-> c, readonly |-> WithReadonly, kf |-> IF WithReadonly THEN {"KF_ReadonlySerialized"} ELSE {},
          subsets |-> {[sub |-> sub, keys |-> SubsetKeys[sub]] : sub \in SUBSET ParamNames},
          cases |-> {[v |-> v, ser |-> Ser(t, v)] : v \in Vals(t, c)},
          schema |-> IF t \in SchemaTypes THEN Schema(t, c) ELSE Sch("none"),
          probes |-> IF t \in {"Integer", "Number"} THEN {[j |-> j, valid |-> Validates(Schema(t, c), j)] : j \in Probes} ELSE {}]
Emit == RecordHist => PrintT(<<"BEHAVIOUR", ToJson(Table)>>)
=============================================================================
