----------------------------- MODULE Equality -----------------------------
(***************************************************************************
 C03, the "genuine change is never suppressed" clause: a changes-only watcher
 is skipped only when new equals old, and always for equal numbers, strings,
 None, dates and containers of these.

 PyEq is Python's == on a universe of such values, written structurally:
 numbers compare by value across int / bool / float (1 == True == 1.0), NaN
 equals nothing, a date never equals a datetime, containers are equal iff
 they have the same container type, the same length / key set and pairwise
 equal items.  For every ordered pair (old, new) of the universe the
 specification says whether the watcher must run (~PyEq) or must be skipped
 (PyEq); the harness assigns old, then a freshly built new, and compares.
 ***************************************************************************)
EXTENDS Integers, Sequences, FiniteSets, TLC, Json

CONSTANT RecordHist

None == [k |-> "none"]
I(n) == [k |-> "int", n2 |-> 2 * n]
F(n2) == [k |-> "float", n2 |-> n2]
Bo(b) == [k |-> "bool", n2 |-> IF b THEN 2 ELSE 0]
NaN == [k |-> "nan"]
S(x) == [k |-> "str", s |-> x]
D(d) == [k |-> "date", t2 |-> 2 * d]
DT(d, h) == [k |-> "datetime", t2 |-> 2 * d + h]
Tup(items) == [k |-> "tuple", items |-> items]
Lst(items) == [k |-> "list", items |-> items]
Dct(keys, vals) == [k |-> "dict", keys |-> keys, items |-> vals]

IsNum(v) == v.k \in {"int", "float", "bool"}

RECURSIVE PyEq(_, _)
PyEq(a, b) ==
  CASE IsNum(a) /\ IsNum(b) -> a.n2 = b.n2
    [] a.k = "nan" \/ b.k = "nan" -> FALSE
    [] a.k # b.k -> FALSE
    [] a.k = "none" -> TRUE
    [] a.k = "str" -> a.s = b.s
    [] a.k \in {"date", "datetime"} -> a.t2 = b.t2
    [] a.k \in {"tuple", "list"} ->
          Len(a.items) = Len(b.items) /\ \A i \in 1..Len(a.items) : PyEq(a.items[i], b.items[i])
    [] a.k = "dict" ->
          /\ {a.keys[i] : i \in 1..Len(a.keys)} = {b.keys[i] : i \in 1..Len(b.keys)}
          /\ \A i \in 1..Len(a.keys) : \A j \in 1..Len(b.keys) :
                a.keys[i] = b.keys[j] => PyEq(a.items[i], b.items[j])
    [] OTHER -> FALSE

Atoms == {I(0), I(1), Bo(TRUE), Bo(FALSE), F(2), F(1), NaN, None, S("a"), S("b"), D(1), D(2), DT(1, 0), DT(1, 1)}
Small == {I(1), Bo(TRUE), F(2), None, S("a"), NaN}
Seqs12(X) == {<<x>> : x \in X} \cup {<<x, y>> : x \in X, y \in X}
Flat == {Tup(s) : s \in Seqs12(Small) \cup {<<>>}} \cup {Lst(s) : s \in Seqs12(Small) \cup {<<>>}}
DV == {I(1), None, F(2)}
Dicts == {Dct(<<>>, <<>>)} \cup {Dct(<<k>>, <<v>>) : k \in {"a", "b"}, v \in DV}
          \cup {Dct(<<"a", "b">>, <<v, w>>) : v \in DV, w \in DV}
          \cup {Dct(<<"b", "a">>, <<v, w>>) : v \in {I(1), None}, w \in {I(1), None}}
Inner == {Lst(<<I(1)>>), Lst(<<F(2)>>), Tup(<<I(1)>>), Lst(<<NaN>>), Dct(<<"a">>, <<None>>), Dct(<<"b">>, <<None>>), Dct(<<"a">>, <<I(1)>>)}
Nested == {Lst(<<x>>) : x \in Inner} \cup {Lst(<<I(0), x>>) : x \in Inner} \cup {Tup(<<x>>) : x \in Inner}
          \cup {Dct(<<"a">>, <<x>>) : x \in Inner}
U == Atoms \cup Flat \cup Dicts \cup Nested

VARIABLES old, new
vars == <<old, new>>
Init == old \in U /\ new \in U
Next == UNCHANGED vars
Spec == Init /\ [][Next]_vars

\* sanity of the relation itself (equality is symmetric; reflexive unless NaN is involved)
RECURSIVE HasNaN(_)
HasNaN(v) == IF v.k = "nan" THEN TRUE
             ELSE IF v.k \in {"tuple", "list", "dict"} THEN \E i \in 1..Len(v.items) : HasNaN(v.items[i])
             ELSE FALSE
Symmetric == PyEq(old, new) = PyEq(new, old)
Reflexive == (old = new /\ ~HasNaN(old)) => PyEq(old, new)
NaNNeverEqual == (HasNaN(old) /\ old = new) => ~PyEq(old, new)

\* one record per old value: the verdict for every new value
First == CHOOSE v \in U : TRUE
EmitRow == (RecordHist /\ new = First) =>
   PrintT(<<"BEHAVIOUR", ToJson([old |-> old, row |-> {[new |-> n, eq |-> PyEq(old, n)] : n \in U}])>>)
=============================================================================
