------------------------------ MODULE Inherit ------------------------------
(***************************************************************************
 C11: a Parameter redeclared along a class hierarchy.

 A hierarchy shape (chain, chain with a class that skips the declaration,
 diamond in both base orders) and, per class, either no declaration or a
 declaration [ty, default, bounds, incl, doc, constant, an, inst, meta, nmeta] in which every
 attribute is a value or "U" (left unspecified).  The module computes

   * Res(c, slot): the merged value of every attribute of the Parameter of
     class c -- the class's own value if specified, else the value held by
     the nearest class in its MRO that declares the Parameter and whose
     Parameter type has that attribute, else the type's default;
     `instantiate` is True if any class in the MRO has it True;
     `allow_None` is recomputed from the class's own declaration;
   * Fails(c): class creation must fail exactly when the merged default is
     not None and violates the merged bounds / type, or is None, not allowed,
     and the Parameter type changed along the way;
   * AsBuiltValidates(c): when __param_inheritance (parameterized.py:4476)
     actually re-validates (type change, or a validated attribute overridden
     with a non-None default) -- TLC checks that this is enough, i.e. that
     the two notions of failure coincide on the enumerated space.

 All tokens are strings: "U" unspecified, "None", numbers "0", "0.0", "1",
 "5", "1.5", text "s" and "", bounds "b02" (0..2) and "b46" (4..6).
 ***************************************************************************)
EXTENDS Integers, Sequences, FiniteSets, TLC, Json

CONSTANTS Shapes, Decls, RootDecls, LeafDecls, RecordHist

Absent == [ty |-> "absent"]
\* ---- hierarchy shapes: classes in creation order with their MRO (nearest first, self excluded)
Classes(sh) == CASE sh = "chain" -> <<"A", "B", "C">>
                 [] sh = "skip" -> <<"A", "B", "C">>
                 [] sh \in {"diamondBC", "diamondCB"} -> <<"A", "B", "C", "D">>
Mro(sh, c) ==
  CASE c = "A" -> <<>>
    [] c = "B" -> <<"A">>
    [] c = "C" -> IF sh \in {"chain", "skip"} THEN <<"B", "A">> ELSE <<"A">>
    [] c = "D" -> IF sh = "diamondBC" THEN <<"B", "C", "A">> ELSE <<"C", "B", "A">>

\* ---- Parameter types ----------------------------------------------------------------
SubType(a, b) ==    \* issubclass(a, b)
  a = b \/ b = "Parameter" \/ (a = "Integer" /\ b = "Number")
\* "Selector": always declared with the objects ["s", "o"]; its constructor takes the first object for the default when none
\* is given (so its default is never "unspecified"), and computes allow_None from the declaration alone like every type --
\* but does not turn it on for a None default
\* "Tuple": a type with a *computed* constraint -- its length, taken from the (merged) default when left unspecified
HasSlot(ty, slot) == IF slot = "it" THEN ty = "List" ELSE slot \notin {"bounds", "incl", "nmeta"} \/ ty \in {"Number", "Integer"}
TypeDefault(ty, slot) ==
  CASE slot = "default" -> (CASE ty = "Parameter" -> "None" [] ty = "Number" -> "0.0" [] ty = "Integer" -> "0" [] ty = "String" -> ""
                              [] ty = "Tuple" -> "t2" [] ty = "List" -> "lempty" [] ty = "Selector" -> "s")
    [] slot = "it" -> "None"              \* item_type: "None" = any type (also when given explicitly), "int", "str"
    [] slot = "bounds" -> "None"
    [] slot = "incl" -> "ii"
    [] slot = "doc" -> "None"
    [] slot = "constant" -> "F"
    \* "meta": every other attribute all Parameter types have (label, precedence, pickle_default_value, allow_refs,
    \* nested_refs, per_instance), specified together as a bundle m1 / m2; "nmeta": those only numeric types
    \* have (step, softbounds), bundle n1.  "None" stands for each attribute's own type default.
    [] slot \in {"meta", "nmeta"} -> "None"
Num2(v) == CASE v = "0" -> 0 [] v = "0.0" -> 0 [] v = "1" -> 2 [] v = "5" -> 10 [] v = "1.5" -> 3
IsNumTok(v) == v \in {"0", "0.0", "1", "5", "1.5"}
\* incl: "ii" both bounds inclusive (the default), "xx" both exclusive
InBounds(v, b, incl) ==
  CASE b = "None" -> TRUE
    [] b = "b02" -> IF incl = "ii" THEN Num2(v) >= 0 /\ Num2(v) <= 4 ELSE Num2(v) > 0 /\ Num2(v) < 4
    [] b = "b46" -> IF incl = "ii" THEN Num2(v) >= 8 /\ Num2(v) <= 12 ELSE Num2(v) > 8 /\ Num2(v) < 12
\* does a non-None value satisfy type ty with bounds b?
ValidVal(ty, v, b, incl) ==
  CASE ty = "Parameter" -> TRUE
    [] ty = "Number" -> IsNumTok(v) /\ InBounds(v, b, incl)
    [] ty = "Integer" -> v \in {"0", "1", "5"} /\ InBounds(v, b, incl)
    [] ty = "String" -> v \in {"s", "o", ""}
    [] ty = "Tuple" -> v \in {"t2", "t3"}         \* (0, 0) and (1, 2, 3): any tuple, the length follows the default
    [] ty = "List" -> v \in {"lempty", "l1", "ls"}     \* [], [1], ["s"]: the item type is checked separately (ItemOK)
    [] ty = "Selector" -> v \in {"s", "o"}

ItemOK(it, v) == it = "None" \/ v = "lempty" \/ (it = "int" /\ v = "l1") \/ (it = "str" /\ v = "ls")
\* the constructor of a declaration validates its own (or the type's) default against its own bounds
\* allow_None is computed by the constructor from the declaration alone: True if the default the
\* constructor sees (its own, else the type's) is None, else the value given, else False
OwnAN(d) == IF d.ty = "Selector" THEN d.an = "T"
            ELSE IF d.default = "None" \/ (d.default = "U" /\ TypeDefault(d.ty, "default") = "None") THEN TRUE ELSE d.an = "T"
Constructible(d) ==
  LET v == IF d.default = "U" THEN TypeDefault(d.ty, "default") ELSE d.default
      b == IF HasSlot(d.ty, "bounds") /\ d.bounds # "U" THEN d.bounds ELSE "None"
      ic == IF HasSlot(d.ty, "incl") /\ d.incl # "U" THEN d.incl ELSE "ii"
  IN IF v = "None" THEN TRUE     \* (allow_None becomes True automatically, or the type default is None)
     ELSE ValidVal(d.ty, v, b, ic) /\ (d.ty = "List" => ItemOK(IF d.it = "U" THEN "None" ELSE d.it, v))

\* ---- state: one hierarchy with its declarations ----------------------------------------
VARIABLES shape, decl
vars == <<shape, decl>>

DeclOK(sh, dc) ==
  /\ dc["A"] # Absent                                   \* the root declares the Parameter
  /\ (sh = "skip" => dc["B"] = Absent)                   \* the middle class skips it
  /\ (sh = "chain" => dc["B"] # Absent /\ dc["C"] # Absent)
  /\ (sh \in {"diamondBC", "diamondCB"} => dc["D"] # Absent /\ (dc["B"] # Absent \/ dc["C"] # Absent))
  /\ (sh = "skip" => dc["C"] # Absent)
  /\ \A c \in DOMAIN dc : dc[c] = Absent \/ Constructible(dc[c])

ClsSet(sh) == {Classes(sh)[i] : i \in 1..Len(Classes(sh))}
Leaf(sh) == Classes(sh)[Len(Classes(sh))]
Init == /\ shape \in Shapes
        /\ decl \in {dc \in [ClsSet(shape) -> Decls \cup {Absent}] :
                        /\ DeclOK(shape, dc) /\ dc["A"] \in RootDecls /\ dc[Leaf(shape)] \in LeafDecls \cup {Absent}}
Next == UNCHANGED vars
Spec == Init /\ [][Next]_vars

\* ---- the merge ------------------------------------------------------------------------
Declares(c) == decl[c] # Absent
\* ancestors of c (nearest first) that declare the Parameter
Holders(c) == SelectSeq(Mro(shape, c), LAMBDA a : Declares(a))

RECURSIVE Res(_, _)
Res(c, slot) ==
  LET d == decl[c]
      hs == SelectSeq(Holders(c), LAMBDA a : HasSlot(decl[a].ty, slot))
  IN IF slot = "an" THEN (IF OwnAN(d) THEN "T" ELSE "F")
     ELSE IF slot = "inst"
          THEN (IF d.inst = "T" \/ d.ty = "List"      \* (a List is instantiate=True unless told otherwise)
                   \/ \E i \in 1..Len(Holders(c)) : Res(Holders(c)[i], "inst") = "T" THEN "T" ELSE "F")
     ELSE IF d[slot] # "U" THEN d[slot]
     ELSE IF hs # <<>> THEN Res(hs[1], slot)
     ELSE TypeDefault(d.ty, slot)

Bounds(c) == IF HasSlot(decl[c].ty, "bounds") THEN Res(c, "bounds") ELSE "None"
Incl(c) == IF HasSlot(decl[c].ty, "incl") THEN Res(c, "incl") ELSE "ii"
\* the length a Tuple Parameter enforces: computed by its own constructor from a default it specifies itself, else
\* inherited from the nearest Tuple holder, else computed from the merged default
TLen(v) == IF v = "t3" THEN 3 ELSE 2
RECURSIVE LengthOf(_)
LengthOf(c) ==
  LET hs == SelectSeq(Holders(c), LAMBDA a : decl[a].ty = "Tuple") IN
  IF decl[c].default # "U" THEN TLen(decl[c].default)
  ELSE IF hs # <<>> THEN LengthOf(hs[1])
  ELSE TLen(Res(c, "default"))
ValidFor(c, v) == /\ ValidVal(decl[c].ty, v, Bounds(c), Incl(c)) /\ (decl[c].ty = "Tuple" => TLen(v) = LengthOf(c))
                  /\ (decl[c].ty = "List" => ItemOK(Res(c, "it"), v))
TypeChange(c) == \E i \in 1..Len(Holders(c)) : ~SubType(decl[Holders(c)[i]].ty, decl[c].ty)

\* C11: creation of class c must fail exactly when ...
Fails(c) ==
  LET v == Res(c, "default") IN
  IF v = "None" THEN TypeChange(c) /\ Res(c, "an") = "F" /\ decl[c].ty # "Parameter"
  ELSE ~ValidFor(c, v)

\* when the implementation re-validates the merged default: the Parameter type changed, or a
\* validated attribute (default, bounds, allow_None, instantiate...) was specified by this class
\* with a value different from the one the nearest holder has, and the default is not None
Overridden(c) ==
  \E slot \in {"default", "bounds", "incl", "it"} :
     LET hs == SelectSeq(Holders(c), LAMBDA a : HasSlot(decl[a].ty, slot)) IN
     HasSlot(decl[c].ty, slot) /\ decl[c][slot] # "U" /\ hs # <<>> /\ Res(hs[1], slot) # decl[c][slot]
AsBuiltValidates(c) == TypeChange(c) \/ (Overridden(c) /\ Res(c, "default") # "None")
FailsAsBuilt(c) == AsBuiltValidates(c) /\ Fails(c)

\* a class exists iff all the classes before it in creation order that it inherits from were created
RECURSIVE Created(_)
Created(c) == Declares(c) => (~Fails(c) /\ \A i \in 1..Len(Holders(c)) : Created(Holders(c)[i]))
Exists(c) == \A i \in 1..Len(Mro(shape, c)) : (Declares(Mro(shape, c)[i]) => Created(Mro(shape, c)[i]))

\* ---- properties of the specification ------------------------------------------------------
\* the re-validation the implementation performs is sufficient: whenever creation must fail,
\* the merged default is in fact re-validated
RevalidationSufficient ==
  \A c \in ClsSet(shape) : (Declares(c) /\ Exists(c) /\ Fails(c)) => AsBuiltValidates(c)
\* no class exists whose non-None default contradicts its own bounds or type
NoContradiction ==
  \A c \in ClsSet(shape) : (Declares(c) /\ Exists(c) /\ Created(c) /\ Res(c, "default") # "None")
        => ValidFor(c, Res(c, "default"))
\* instantiate is monotone along the MRO
InstantiateInherited ==
  \A c \in ClsSet(shape) : Declares(c) =>
     \A i \in 1..Len(Holders(c)) : (Res(Holders(c)[i], "inst") = "T" => Res(c, "inst") = "T")

Expect(c) ==
  IF ~Declares(c) THEN [declares |-> FALSE, exists |-> Exists(c)]
  ELSE IF ~Exists(c) THEN [declares |-> TRUE, exists |-> FALSE]
  ELSE IF Fails(c) THEN [declares |-> TRUE, exists |-> TRUE, fails |-> TRUE]
  ELSE [declares |-> TRUE, exists |-> TRUE, fails |-> FALSE, ty |-> decl[c].ty,
        default |-> Res(c, "default"), bounds |-> Bounds(c), incl |-> Incl(c), doc |-> Res(c, "doc"),
        constant |-> Res(c, "constant"), an |-> Res(c, "an"), inst |-> Res(c, "inst"),
        it |-> (IF HasSlot(decl[c].ty, "it") THEN Res(c, "it") ELSE "None"),
        meta |-> Res(c, "meta"), nmeta |-> IF HasSlot(decl[c].ty, "nmeta") THEN Res(c, "nmeta") ELSE "None"]

Emit == RecordHist =>
  PrintT(<<"BEHAVIOUR", ToJson([shape |-> shape, decl |-> decl,
                                 expect |-> [c \in ClsSet(shape) |-> Expect(c)]])>>)
=============================================================================
