CONSTANTS
 Params <- P2
 Kind <- K2
 Dom <- D2
 Bad = 9
 WCfgs <- WC3
 InitWs <- IW0
 Acts <- ActsAll
 MaxW = 2
 MaxOps = 4
 MaxStack = 6
 MaxFaults = 2
 RecordHist = FALSE
 OnAbort = "drop"
INIT Init
NEXT Next
CHECK_DEADLOCK FALSE
INVARIANT TypeOK
INVARIANT NoCallUnderCtx
INVARIANT NoCallInsideUpdate
INVARIANT QuiescentClean
INVARIANT StillBatched
INVARIANT NoDupQueued
INVARIANT NoDupDelivery
INVARIANT DeliveryOrdered
INVARIANT QueuedDeferred
