---- MODULE MC_Equality ----
EXTENDS Equality
====
