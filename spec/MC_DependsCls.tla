---- MODULE MC_DependsCls ----
EXTENDS DependsCls
m1x == Dec({"x"}, FALSE, FALSE)
m1xy == Dec({"x", "y"}, FALSE, FALSE)
m1m2 == Dec({"m2"}, FALSE, FALSE)
m1ym2 == Dec({"y", "m2"}, FALSE, FALSE)
m1yi == Dec({"y"}, TRUE, FALSE)
m1xq == Dec({"x"}, FALSE, TRUE)
m1xb == Dec({"x", "x:bounds"}, FALSE, FALSE)
m1none == Dec({}, FALSE, FALSE)       \* @param.depends(watch=True) naming nothing: depends on nothing (not "on everything")
m1nonei == Dec({}, TRUE, FALSE)
m2x == Dec({"x"}, FALSE, FALSE)
m2y == Dec({"y"}, FALSE, FALSE)
m2b == Dec({"x:bounds"}, TRUE, FALSE)
m1xs == DecS({"x"}, FALSE)
m1xsi == DecS({"x"}, TRUE)
M1T == {m1x, m1xy, m1m2, m1ym2, m1yi, m1xq, m1xb, m1xs, m1xsi, m1none, m1nonei}
M2T == {m2x, m2y, m2b}
M1Q == {m1x, m1m2, m1yi, m1xb, m1xsi, m1none}
M2Q == {m2x, m2y}
M1QD == {m1x, m1m2, m1xsi}
RootM1T == {m1x, m1m2, m1ym2, m1yi, m1xsi}
RootM1Q == {m1x, m1m2, m1xsi}
SChain == {"chain"}
SDiamond == {"diamond"}
SAll == {"chain", "diamond"}
====
