CONSTANTS
 Types <- TAll
 MaxOps = 0
 RecordHist = TRUE
INIT Init
NEXT Next
CHECK_DEADLOCK FALSE
INVARIANT EmitTable
