---- MODULE MC_RxOps ----
EXTENDS RxOps
====
