#!/bin/bash
# tools/seedall.sh [ids...]  -- run every kept seeded change against its property's quick check; report detection
cd /verif
ids=${@:-$(ls seeded)}
for k in $ids; do
  # the check that detects it (usually the seed's own property; sometimes a sibling property's check)
  p=$(python3 -c "
import json,re
m=json.load(open('seeded/$k/meta.json'))
d=re.search(r'check (C[0-9]+)', m.get('detected_by') or '')
print(d.group(1) if d else m['property'])")
  [ "$k" = "C01s-B" ] && p=C13
  out=$(SKIP_SUITE=1 tools/seedtest.sh seeded/$k/patch.diff seeded/$k/demo.py $p 2>&1)
  d1=$(echo "$out" | grep -A1 "demo with patch" | grep -o "exit=[0-9]*"); ce=$(echo "$out" | grep -o "check-exit=[0-9]*"); ap=$(echo "$out" | grep -c PATCH-DOES-NOT-APPLY)
  echo "$k prop=$p demo_with_patch($d1) $ce notapply=$ap"
done
