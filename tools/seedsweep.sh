#!/bin/bash
# tools/seedsweep.sh <seed>... : run every quick check under the given VERIF_SEED values (evidence redirected);
# any non-zero exit on the unchanged tree is a flaky alarm to investigate.
export VERIF_EVIDENCE_DIR=/tmp/sweep-ev; mkdir -p $VERIF_EVIDENCE_DIR
for sd in "$@"; do
  for id in C01 C02 C03 C04 C05 C06 C07 C08 C09 C10 C11 C12 C13 C14 C15 C16 C17 C18 C19 C20; do
    out=$(VERIF_SEED=$sd /verif/check $id --tier quick 2>&1); rc=$?
    [ $rc -ne 0 ] && echo "seed=$sd $id rc=$rc $(echo "$out" | grep -A1 VIOLATION | head -4 | cut -c1-200)"
  done
  echo "seed=$sd done"
done
