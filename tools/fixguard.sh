#!/bin/bash
# tools/fixguard.sh [<sha> ...] : for every "fix:" commit of /repo (or the given ones), revert it in a scratch
# worktree of HEAD and run the quick check of the property it was recorded under: the check must report the
# violation again (exit 1).  Where later commits touch the same lines, a hand-ported reverse patch is kept in tools/fixguard_ports/.  "a fixed entry suppresses nothing".
declare -A PROP=( [2f5f7b3]=C05 [6fd9e7a]=C05 [5b08089]=C05 [d24852e]=C05 [aba7157]=C18 [1e26901]=C01 [80a737f]=C01
 [b374c1c]=C13 [d91f5f6]=C13 [d8e98b8]=C14 [b7232cb]=C06 [1588787]=C02 [8ae02e9]=C07 [d8e230e]=C07 [dedc630]=C02 [088d504]=C08
 [6d3f601]=C10 [2c0c7d0]=C19 [0c2b523]=C20 [e875e2c]=C20 [0aa42b0]=C16 [67e5baa]=C17 [de881bc]=C17 [7789e41]=C09 [b422535]=C09
 [60a24fc]=C08 [2bfafb2]=C08 [4b2e36f]=C08 [146b85d]=C02 [d0f70d0]=C16 [b922718]=C08 [0d6c3a0]=C08 [3b5c468]=C01 [28bb696]=C04 [23aed92]=C13 [0dfe8ef]=C05 [25b963c]=C11 [00a17cc]=C03 [4cf5e71]=C01 [b426593]=C16 [6fea589]=C05 [c22ceec]=C07 [650e6b7]=C09 [7ea8636]=C09 [d94181e]=C19 [a6a2a07]=C20 [e5bc2b5]=C18 [2fae1e9]=C18 [095124c]=C18 [948e790]=C15 [4b3640c]=C11 [b3691d0]=C13 [51081ab]=C14 )
shas="$@"; [ -z "$shas" ] && shas="${!PROP[@]}"
export VERIF_EVIDENCE_DIR=/tmp/fixguard-ev-$$; mkdir -p $VERIF_EVIDENCE_DIR
# repairs whose defect a later repair made unreachable (reverting them alone changes nothing observable any more)
declare -A SUPERSEDED=( [d8e98b8]="51081ab (edit_constant no longer consults the cached dict on exit, so clearing it in place is harmless)" )
for sha in $shas; do
  prop=${PROP[$sha]}
  if [ -n "${SUPERSEDED[$sha]:-}" ]; then echo "$sha $prop: superseded by ${SUPERSEDED[$sha]}"; continue; fi
  WT=$(mktemp -d /tmp/wtfg-XXXX); rmdir $WT; git -C /repo worktree add -q --detach $WT HEAD
  if { [ -f /verif/tools/fixguard_ports/$sha.diff ] && git -C $WT apply /verif/tools/fixguard_ports/$sha.diff 2>/dev/null; } || { git -C /repo diff $sha $sha^ | git -C $WT apply 2>/dev/null; }; then
     out=$(cd /verif && VERIF_REPO=$WT ./check $prop --tier quick 2>&1); rc=$?; out=$(echo "$out" | tail -1 | cut -c1-120)
     echo "$sha $prop reverted: check-exit=$rc  $out"
  else
     echo "$sha $prop: reverse patch does not apply to HEAD (later commits touch the same lines)"
  fi
  git -C /repo worktree remove --force $WT
done
rm -rf $VERIF_EVIDENCE_DIR
