#!/bin/bash
cd /verif
WT=/tmp/wtapply; rm -rf $WT; git -C /repo worktree add -q --detach $WT HEAD
for k in $(ls seeded); do
  git -C $WT apply --check /verif/seeded/$k/patch.diff 2>/dev/null || echo "NOAPPLY $k"
done
git -C /repo worktree remove --force $WT
