#!/bin/bash
# run every claimed check (quick unless TIER is set) and summarise
cd /verif
for id in $(python3 -c "import json;print(' '.join(c['property_id'] for c in json.load(open('MANIFEST.json'))['checks']))"); do
  s=$(date +%s); out=$(timeout 3000 ./check $id --tier ${TIER:-quick} 2>&1); rc=$?; e=$(( $(date +%s) - s ))
  echo "$id rc=$rc ${e}s $(echo "$out" | grep -v '^KNOWN-FINDING' | tail -1 | cut -c1-200)"
done
python3-vt -c "
import json, jsonschema
m=json.load(open('MANIFEST.json')); jsonschema.validate(m, json.load(open('/root/.vp/MANIFEST.schema.json')))
for c in m['checks']:
    jsonschema.validate(json.load(open(c['evidence_file'])), json.load(open('/root/.vp/EVIDENCE.schema.json')))
print('manifest+evidence valid')"
