#!/bin/bash
# tools/seedsuite.sh <seed-id>... : confirm that param's own test suite still passes with the seeded patch applied
# (scratch worktree of /repo HEAD, removed afterwards); records the result in seeded/<id>/meta.json ("suite")
for id in "$@"; do
  d=/verif/seeded/$id
  WT=$(mktemp -d /tmp/wtsuite-XXXX); rmdir $WT; git -C /repo worktree add -q --detach $WT HEAD
  if git -C $WT apply "$d/patch.diff" 2>/dev/null; then
    out=$(cd $WT && /venv/bin/python -m pytest -q -p no:cacheprovider --timeout=900 -n 8 2>&1 | tail -1 | sed 's/\x1b\[[0-9;]*m//g')
  else out="patch does not apply"; fi
  git -C /repo worktree remove --force $WT
  python3 - "$d/meta.json" "$out" <<'PY'
import json,sys
m=json.load(open(sys.argv[1])); m["suite"]=sys.argv[2].strip(); json.dump(m,open(sys.argv[1],"w"),indent=1)
PY
  echo "$id: $out"
done
