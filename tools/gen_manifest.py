#!/usr/bin/env python3
"""Regenerate MANIFEST.json from the table below (single source of truth for what is claimed)."""
import json, os
HERE = os.path.dirname(os.path.dirname(os.path.abspath(__file__)))
props = [json.loads(l) for l in open(os.path.join(HERE, "properties.jsonl"))]
CLAIMED = {
 "C12": dict(module="ClassModel", design="5 C12", technique="TLA+ spec ClassModel (explicit heap of Parameter objects, value cells, class dicts, instances) + TLC frame properties; generated interleavings replayed on real classes/instances comparing every class and instance after each step",
   text="TLC checks InstOpsLocal (an instance-level assignment or Parameter edit changes nothing the classes or other instances see), InstantiatePrivate and the constant/readonly stability properties on all interleavings of <=3-4 operations; generated behaviours (exhaustive to 3-4 operations, random to 8) over instance creation, class/subclass/instance assignments, per-instance Parameter edits, in-place mutation and namespace reads are replayed, comparing after each step the value and cell identity (up to renaming) and Parameter attributes seen by every class and instance.",
   note="Chain A<-B, <=2-3 instances; parameter kinds instantiate=True list, instantiate=False list, constant (object and None default), per_instance=False, plain Integer -- one configuration at a time."),
 "C13": dict(module="ClassModel", design="5 C13", technique="TLA+ spec ClassModel with namespace reads as explicit actions (the specification defines .param by the MRO walk, i.e. has no cache); generated interleavings of reads / class-level sets / add_parameter / instance creation replayed, checking .param against inspect.getattr_static and getattr after each step",
   text="In the specification attribute lookup and the .param namespace are the same function of the class dictionaries, so agreement holds by construction; the implementation caches, so every read is an action and TLC generates all interleavings (chain of 3, <=3-4 operations exhaustively, random to 8) of namespace reads with class-level assignments at every level, add_parameter at every level, instance creation and instance sets. After every step the replay checks for every class and instance: each declared name is listed, .param[name] is the very descriptor found by inspect.getattr_static, its default is the class attribute, and .param.values() equals getattr.",
   note="Plain Integer parameter plus one name added later; instances <=2-3."),
 "C14": dict(module="ClassModel", design="5 C14", technique="TLA+ spec ClassModel with constant / readonly kinds and edit_constant blocks (nested, failing) as actions + TLC ConstStable / ReadonlyNever; generated histories replayed comparing identity of held objects, flags and exception class",
   text="TLC checks that the object held by a constant parameter of an instance changes only under an open edit_constant block of that instance and that readonly defaults never change, over histories of constructor arguments, instance sets (attribute and update routes, including re-assignment of the identical object), class-level sets on declaring class and subclass, nested and failing edit_constant blocks. The replay compares the identity of every held object, the constant flags at class and instance level after each block, and that forbidden assignments raise TypeError and leave the value untouched.",
   note="One open known finding (class-level flag cleared during a block leaks into copies made meanwhile). While a block is open on one instance other instances' constant parameters are not assigned (the property does not say)."),
 "C11": dict(module="Inherit", design="5 C11", technique="TLA+ spec Inherit (declarative per-attribute merge along the MRO + failure condition) checked by TLC against the re-validation rule; every enumerated hierarchy built for real (class body and add_parameter) and every slot compared",
   text="The specification gives, for each hierarchy shape (chain, chain with a skipping class, diamond in both base orders) and each combination of declarations, the merged value of every Parameter attribute and whether class creation must fail; TLC checks NoContradiction, InstantiateInherited and that the implementation's re-validation trigger is sufficient, over the whole enumerated space. Every hierarchy is then built with type() and again through add_parameter, comparing type, default, bounds, doc, constant, allow_None, instantiate and whether creation raised.",
   note="Exhaustive over shapes x curated declaration set (18 declarations; quick tier uses a 12-declaration subset); declarations whose own constructor raises are outside the domain."),
 "C01": dict(module="Validate", design="5 C01", technique="TLA+ spec Validate (Accepts operator over 23 Parameter types x constraint configurations x candidate values) + TLC invariants; every (type, configuration) verdict table replayed through six routes on real Parameters",
   text="The specification states, per Parameter type and constraint configuration, which candidate values are accepted; TLC enumerates the whole product and checks StoredValid, Boundary (boundary accepted iff inclusive), NaNOutside, NoneIffAllowed on it. Every table is replayed: each candidate is tried through class declaration, constructor, instance attribute, class attribute, param.update and (where expressible in JSON) deserialization, comparing accept/reject, exception class (ValueError/TypeError), read-back, and that a rejected attempt leaves the previous value.",
   note="Exhaustive over the enumerated space (exhaustive:true); the space is finite by construction (bounds from a small set, candidates at/inside/outside each bound, Fraction/Decimal/NaN/inf, wrong kinds). Documented or ambiguous inputs are outside the domain and listed in the evidence assumptions."),
 "C03": dict(module="ParamCore", design="5 C03", technique="TLA+ spec ParamCore + TLC exhaustive invariants; TLC-generated behaviours (exhaustive + simulate) replayed step-by-step on real param objects",
   text="TLC checks delivery-order / exactly-once / depth-first / queued-deferral invariants on the dispatcher specification over all programs of <=3-4 operations with arbitrary callback programs; every behaviour TLC generates (exhaustive to 2-3 ops over the property's alphabet, thousands of random ones to 6 ops, plus the equality domain) is replayed on the real code with callbacks scripted by the behaviour, comparing watcher identity, event name/old/new/type and the object's values at every callback entry and after every operation.",
   note="Small-scope hypothesis (2 parameters, <=3 watchers from 5 configurations, value tokens); trusted: TLC, CPython, the token<->value mapping in harness/drivers/paramcore.py. Slot watchers and class-level dispatch are covered by C12/C13 modules, not here."),
 "C04": dict(module="ParamCore", design="5 C04", technique="TLA+ spec ParamCore + TLC invariants; generated behaviours with nested batch/discard/update contexts and trigger replayed on real param",
   text="TLC checks NoCallUnderCtx, NoCallInsideUpdate, NoDupQueued, NoDupDelivery, DeliveryOrdered on all nestings of batch / discard / update / update-context / trigger with <=3-4 operations; generated behaviours (contexts entered and exited as explicit steps, Event parameters included) are replayed on the real code comparing every delivery (watcher, events, final values, types) and the parameter values after each context.",
   note="As for C03.  Two deviations of the code are open known findings (trigger type through a batch: pinned by the repository's own test; shared event queue for mixed onlychanged watchers) and are tolerated only on the exact steps the specification tags."),
 "C05": dict(module="ParamCore", design="5 C05", technique="TLA+ spec ParamCore with fault actions (rejected value, raising callback, raising context body) + TLC QuiescentClean/StillBatched; generated fault behaviours replayed on real param, then a behavioural probe against a fresh twin object",
   text="Faults are first-class actions of the specification and the behaviour continues after them; TLC checks that the dispatch state is clean at every quiescent point and still batching inside an open batch (both OnAbort alternatives are admissible, the one the code implements is calibrated at run time). Every generated behaviour with faults is replayed; after it the real object is compared with a freshly built twin (same values, same watchers) under a probe program, which is the property's own observation.",
   note="As for C03; fault positions: k-th item of update, k-th callback of a set / flush / trigger, body of batch / discard / update context, <=3 faults per behaviour."),
 "C18": dict(module="SelectorObjs", design="5 C18", technique="TLA+ spec SelectorObjs (every ListProxy mutator an action) + TLC ViewsAgree/Unique/StyleKept; all mutation sequences replayed on real Selector/ListSelector at class and instance level",
   text="TLC checks on the specification that list view, name mapping and range stay a consistent ordered bijection under every sequence of <=5-7 mutators for list- and dict-declared Selector and ListSelector; every generated sequence (exhaustive to 2-3 operations over 3-4 objects, random to 8) is replayed on the real Parameter, at class level and on a per-instance Parameter copy, comparing after each step list(objects), objects.items(), names, get_range(), the return value, the number of `objects` notifications and accept/reject of value assignments.",
   note="Style-consistent operations and unique hashable objects (the property's quantifier); equal-but-not-identical objects are outside the domain."),
}
PENDING = "check not built yet in this session (specification module planned in DESIGN.md section 4); listed here so that nothing is claimed without a running check"
man = {
 "version": 1,
 "setup_cmd": "./setup.sh",
 "hooks": {"guard": "HOLOVIZ_PARAM_VERIF", "enable": "environment variable HOLOVIZ_PARAM_VERIF=1 set by the harness before importing param from /repo (pure Python: nothing is built; every check imports the current working tree in a fresh interpreter)",
           "baseline_off_cmd": "cd /repo && env -u HOLOVIZ_PARAM_VERIF /venv/bin/python -m pytest -ra -q -p no:cacheprovider --timeout=900 --continue-on-collection-errors",
           "source_commits": [], "add_only": True},
 "engines": [{"name": "tlc-replay", "path": "harness/", "serves_properties": sorted(CLAIMED),
              "kind_free_text": "TLA+ specifications under spec/ checked by TLC; TLC-generated behaviours replayed on the real code by harness/drivers/*; divergences matched against known_findings.json"}],
 "checks": [], "not_applicable": [],
 "notes": "Every check: ./check <id> [--tier quick|thorough]; exit 0 / 1 (VIOLATION line) / 2 (machinery failure). known_findings.json lists open findings and fixed ones.",
}
for p in props:
    i = p["id"]
    if i in CLAIMED:
        c = CLAIMED[i]
        man["checks"].append({
            "property_id": i, "quick_cmd": "./check %s --tier quick" % i, "thorough_cmd": "./check %s --tier thorough" % i,
            "evidence_file": "/verif/evidence/%s.json" % i, "replay_cmd_template": "./check %s --replay {path}" % i,
            "engine": "tlc-replay",
            "level_claimed": {"category": "model_checking", "text": c["text"], "design_ref": c["design"]},
            "level_note": c["note"], "technique": c["technique"]})
    else:
        man["not_applicable"].append({"property_id": i, "reason": PENDING})
json.dump(man, open(os.path.join(HERE, "MANIFEST.json"), "w"), indent=1)
print("claimed", sorted(CLAIMED), "pending", len(man["not_applicable"]))
