#!/bin/bash
# tools/seedall_par.sh <parallelism> [ids...] -- as seedall.sh, several seeds at a time (each with its own worktree and evidence directory)
cd /verif
P=${1:-3}; shift
ids=${@:-$(ls seeded)}
one() {
  k=$1
  p=$(python3 -c "
import json,re
m=json.load(open('seeded/$k/meta.json'))
d=re.search(r'check (C[0-9]+)', m.get('detected_by') or '')
print(d.group(1) if d else m['property'])")
  [ "$k" = "C01s-B" ] && p=C13
  out=$(SEED_EV=/tmp/seed-ev-$k SKIP_SUITE=1 tools/seedtest.sh seeded/$k/patch.diff seeded/$k/demo.py $p 2>&1)
  d1=$(echo "$out" | grep -A1 "demo with patch" | grep -o "exit=[0-9]*"); ce=$(echo "$out" | grep -o "check-exit=[0-9]*"); ap=$(echo "$out" | grep -c PATCH-DOES-NOT-APPLY)
  rm -rf /tmp/seed-ev-$k
  echo "$k prop=$p demo_with_patch($d1) $ce notapply=$ap"
}
export -f one
echo $ids | tr ' ' '\n' | xargs -P $P -I{} bash -c 'one {}'
