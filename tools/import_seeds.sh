#!/bin/bash
# tools/import_seeds.sh <suffix> <id> [<id>...]   e.g.  tools/import_seeds.sh s C04 C09
# imports /tmp/seed/<id><suffix>/patch_{A,B}.diff into seeded/<id><suffix>-{A,B} (if it applies to HEAD) and runs the property's quick check on it
SUF=$1; shift
for id in "$@"; do
 for v in A B; do
  f=/tmp/seed/${id}${SUF}/patch_$v.diff; [ -f "$f" ] || continue
  d=/verif/seeded/${id}${SUF}-$v
  WT=$(mktemp -d /tmp/wtimp-XXXX); rmdir $WT; git -C /repo worktree add -q --detach $WT HEAD
  if git -C $WT apply --check "$f" 2>/dev/null; then
     mkdir -p $d; git -C $WT apply "$f"; git -C $WT diff > $d/patch.diff; cp /tmp/seed/${id}${SUF}/demo_$v.py $d/demo.py; cp /tmp/seed/${id}${SUF}/notes.md $d/notes.md 2>/dev/null
     st="applies"
  else st="NEEDS-PORT"; fi
  git -C /repo worktree remove --force $WT
  if [ "$st" = applies ]; then
     out=$(SKIP_SUITE=1 /verif/tools/seedtest.sh $d/patch.diff $d/demo.py $id 2>&1)
     d0=$(echo "$out" | grep -A1 "demo without" | grep -o "exit=[0-9]*"); d1=$(echo "$out" | grep -A1 "demo with patch" | grep -o "exit=[0-9]*"); ce=$(echo "$out" | grep -o "check-exit=[0-9]*")
     det=None; [ "$ce" = "check-exit=1" ] && det="\"./check $id --tier quick (exit 1, VIOLATION lines)\""
     python3 - <<PY
import json
json.dump({"id":"${id}${SUF}-$v","property":"$id","origin":"independent sub-agent (round 2) given only the property text, the first round's notes and a scratch worktree","what":"see notes.md (variant $v)","needs_to_manifest":"see notes.md","confirmed":"tools/seedtest.sh: demo without patch $d0, with patch $d1","detected_by":$det}, open("$d/meta.json","w"), indent=1)
PY
     echo "${id}${SUF}-$v: $st demo($d0 -> $d1) $ce"
  else echo "${id}${SUF}-$v: $st"; fi
 done
done
