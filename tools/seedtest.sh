#!/bin/bash
# tools/seedtest.sh <patch.diff> <demo.py> <prop> [more props...]   -- run in a scratch worktree of /repo HEAD
# Confirms: patch applies; demo fails with patch / passes without; unedited suite passes; then runs ./check for each prop.
set -u
PATCH=$(readlink -f "$1"); DEMO=$(readlink -f "$2"); shift 2
WT=$(mktemp -d /tmp/wtseed-XXXXXX); rmdir "$WT"
git -C /repo worktree add -q --detach "$WT" HEAD || exit 2
trap 'git -C /repo worktree remove --force "$WT" >/dev/null 2>&1; rm -rf "$WT" "$WT.demo0" "$WT.demo1"' EXIT
echo "== demo without patch"; (cd "$WT" && PYTHONPATH="$WT" timeout 120 /venv/bin/python "$DEMO" >$WT.demo0 2>&1; echo "exit=$?"; tail -2 $WT.demo0)
if ! git -C "$WT" apply "$PATCH" 2>/dev/null; then
  if ! git -C "$WT" apply -3 "$PATCH" 2>/dev/null; then echo "PATCH-DOES-NOT-APPLY"; exit 3; fi
fi
echo "== demo with patch"; (cd "$WT" && PYTHONPATH="$WT" timeout 120 /venv/bin/python "$DEMO" >$WT.demo1 2>&1; echo "exit=$?"; tail -2 $WT.demo1)
if [ -z "${SKIP_SUITE:-}" ]; then echo "== suite with patch"; (cd "$WT" && timeout 600 /venv/bin/python -m pytest -q -p no:cacheprovider --color=no -x 2>&1 | tail -1); fi
for P in "$@"; do
  echo "== check $P (tier ${TIER:-quick})"
  (cd /verif && VERIF_REPO="$WT" VERIF_EVIDENCE_DIR=${SEED_EV:-/tmp/seed-evidence} timeout 3000 ./check "$P" --tier "${TIER:-quick}" 2>&1 | grep -v "^KNOWN-FINDING" | head -12; echo "check-exit=${PIPESTATUS[0]}")
done
