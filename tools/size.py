#!/venv/bin/python
"""Sizing helper: count behaviours a generation config emits (no replay)."""
import sys, time
sys.path.insert(0, '/verif')
from harness import core
from harness.props import dispatch
def main():
    kw = eval("dict(%s)" % sys.argv[1])
    tmo = int(sys.argv[2]) if len(sys.argv) > 2 else 60
    text = dispatch.cfg(hist=True, **kw)
    n = [0, 0]
    def on(line):
        n[0] += 1; n[1] += len(line)
    with core.Scratch() as s:
        r = core.run_tlc('MC_ParamCore.tla', 'x.cfg', s, workers=8, timeout=tmo, on_line=on, extra_defs={'x.cfg': text})
    print(kw, '->', 'behaviours', n[0], 'MB %.1f' % (n[1] / 1e6), 'states', r.generated, 'wall %.1f' % r.wall, 'TIMEOUT' if r.timed_out else '', r.error or '')
main()
