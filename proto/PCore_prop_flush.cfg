CONSTANTS
 Params = {"a","b"}
 Vals = {0,1}
 Bad = 9
 WCfgs <- WC
 MaxW = 2
 MaxOps = 5
 MaxStack = 6
 RecordHist = FALSE
 OnAbort = "flush"
INIT Init
NEXT Next
CHECK_DEADLOCK FALSE
INVARIANT NoCallUnderCtx
INVARIANT QuiescentClean
INVARIANT StillBatched
INVARIANT NoDupQueued
