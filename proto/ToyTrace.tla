---- MODULE ToyTrace ----
EXTENDS Toy, IOUtils, TLCExt
Traces == ndJsonDeserialize(IOEnv.TRACE_FILE)
VARIABLES tid, l
TraceInit == /\ Init /\ tid \in 1..Len(Traces) /\ l = 1 /\ TLCSet(tid, 0)
Tr == Traces[tid].steps
TraceSet == /\ l <= Len(Tr) /\ Tr[l].act.name = "Set"
            /\ Set(Tr[l].act.v) /\ x' = Tr[l].obs.x
            /\ l' = l + 1 /\ UNCHANGED tid
TraceNext == TraceSet
TraceSpec == TraceInit /\ [][TraceNext]_<<vars, tid, l>>
\* record per-trace longest matched prefix
Track == TLCSet(tid, IF TLCGet(tid) < l - 1 THEN l - 1 ELSE TLCGet(tid)) 
Accepted == \A t \in 1..Len(Traces) : (TLCGet(t) = Len(Traces[t].steps)) \/ PrintT(<<"REJECT", t, TLCGet(t)>>)
====
