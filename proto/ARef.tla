---- MODULE ARef ----
(* Feasibility prototype for C10: one allow_refs parameter driven by coroutine
   references and plain values; a FIFO single-threaded event loop; every
   interleaving of Assign / Resolve / Tick.  AsBuilt = TRUE models
   parameterized.py:1546-1558, 2147-2158, 2203-2229 as written (the await sits
   inside the _syncing scope); AsBuilt = FALSE is the intended protocol. *)
EXTENDS Naturals, Sequences, FiniteSets, TLC, Json
CONSTANTS N, AsBuilt, RecordHist, MaxSteps

VARIABLES val,      \* value of the target parameter: 0 initially, 100+i = result of coroutine i, 200+i = plain value of assignment i
          kind,     \* kind[i] \in {"none","coro","plain"} for assignment slots 1..N
          nasg,     \* number of assignments made
          hasref,   \* 0 or the assignment index whose reference is linked
          aref,     \* async_refs[p]: 0 or task id
          syncing,  \* BOOLEAN: p \in _param__private.syncing
          task,     \* task[i] = [st, must, saved] ; st \in {"none","new","wait","done","cancelled"}
          fut,      \* fut[i] \in {"none","pending","done","cancelled"}
          ready,    \* FIFO of task ids to step
          steps, hist
vars == <<val, kind, nasg, hasref, aref, syncing, task, fut, ready, steps, hist>>

Slots == 1..N
Vis(rec) == hist' = IF RecordHist THEN Append(hist, rec) ELSE hist
ObsOf(v, hr, ar, f) == [val |-> v, hasref |-> hr # 0, aref |-> ar # 0, fut |-> f]

Init == /\ val = 0 /\ kind = [i \in Slots |-> "none"] /\ nasg = 0 /\ hasref = 0 /\ aref = 0
        /\ syncing = FALSE /\ task = [i \in Slots |-> [st |-> "none", must |-> FALSE, saved |-> FALSE]]
        /\ fut = [i \in Slots |-> "none"] /\ ready = <<>> /\ steps = 0 /\ hist = <<>>

\* Task.cancel() applied to task c in task table tk / futures f / ready queue r
CancelT(c, tk, f, r) ==
  IF c = 0 THEN <<tk, f, r>>
  ELSE IF tk[c].st = "new" THEN <<[tk EXCEPT ![c].must = TRUE], f, r>>
  ELSE IF tk[c].st = "wait" /\ f[c] = "pending"
       THEN <<tk, [f EXCEPT ![c] = "cancelled"], Append(r, c)>>
  ELSE IF tk[c].st = "wait" /\ f[c] = "done" THEN <<[tk EXCEPT ![c].must = TRUE], f, r>>
  ELSE <<tk, f, r>>        \* running, done or already cancelled: nothing observable

Bound == steps < MaxSteps /\ steps' = steps + 1

AssignCoro ==
  /\ Bound /\ nasg < N
  /\ LET i == nasg + 1
         \* _resolve_ref creates the task first, then _update_ref pops+cancels the registered one
         c == CancelT(aref, [task EXCEPT ![i] = [st |-> "new", must |-> FALSE, saved |-> FALSE]],
                      [fut EXCEPT ![i] = "pending"], Append(ready, i))
     IN /\ nasg' = i /\ kind' = [kind EXCEPT ![i] = "coro"]
        /\ task' = c[1] /\ fut' = c[2] /\ ready' = c[3]
        /\ aref' = 0 /\ hasref' = i
        /\ Vis([a |-> "assign_coro", i |-> i, obs |-> ObsOf(val, i, 0, c[2])])
  /\ UNCHANGED <<val, syncing>>

AssignPlain ==
  /\ Bound /\ nasg < N
  /\ LET i == nasg + 1
         unlink == hasref # 0 /\ (IF AsBuilt THEN ~syncing ELSE TRUE)
         c == IF unlink THEN CancelT(aref, task, fut, ready) ELSE <<task, fut, ready>>
         c2 == c
     IN /\ nasg' = i /\ kind' = [kind EXCEPT ![i] = "plain"]
        /\ hasref' = IF unlink THEN 0 ELSE hasref
        /\ aref' = IF unlink THEN 0 ELSE aref
        /\ task' = c2[1] /\ fut' = c2[2] /\ ready' = c2[3]
        /\ val' = 200 + i
        /\ Vis([a |-> "assign_plain", i |-> i, obs |-> ObsOf(200 + i, IF unlink THEN 0 ELSE hasref, IF unlink THEN 0 ELSE aref, c2[2])])
  /\ UNCHANGED <<syncing>>

Resolve(i) ==
  /\ Bound /\ fut[i] = "pending"
  /\ fut' = [fut EXCEPT ![i] = "done"]
  /\ ready' = IF task[i].st = "wait" THEN Append(ready, i) ELSE ready
  /\ Vis([a |-> "resolve", i |-> i, obs |-> ObsOf(val, hasref, aref, [fut EXCEPT ![i] = "done"])])
  /\ UNCHANGED <<val, kind, nasg, hasref, aref, syncing, task>>

\* one ready callback
Tick ==
  /\ Bound /\ ready # <<>>
  /\ LET t == Head(ready) r0 == Tail(ready) IN
     CASE task[t].st = "new" /\ task[t].must ->
            \* CancelledError thrown into the unstarted coroutine: body never runs
            /\ task' = [task EXCEPT ![t].st = "cancelled"] /\ ready' = r0
            /\ fut' = [fut EXCEPT ![t] = IF fut[t] = "pending" THEN "cancelled" ELSE fut[t]]
            /\ Vis([a |-> "tick", t |-> t, what |-> "cancel_unstarted", obs |-> ObsOf(val, hasref, aref, fut')])
            /\ UNCHANGED <<val, kind, nasg, hasref, aref, syncing>>
       [] task[t].st = "new" /\ ~task[t].must /\ fut[t] = "done" ->
            \* future resolved before the task started: no suspension, result applied in the first step
            LET c == IF aref # 0 /\ aref # t THEN CancelT(aref, task, fut, r0) ELSE <<task, fut, r0>>
            IN /\ val' = 100 + t
               /\ task' = [c[1] EXCEPT ![t].st = "done"] /\ fut' = c[2] /\ ready' = c[3]
               /\ Vis([a |-> "tick", t |-> t, what |-> "start_apply", obs |-> ObsOf(100 + t, hasref, aref, fut')])
               /\ UNCHANGED <<kind, nasg, hasref, aref, syncing>>
       [] task[t].st = "new" /\ ~task[t].must /\ fut[t] # "done" ->
            \* first step of _async_ref: register / cancel other, enter _syncing, await
            LET c == IF aref = 0 THEN <<task, fut, r0>> ELSE IF aref # t THEN CancelT(aref, task, fut, r0) ELSE <<task, fut, r0>>
                tk == [c[1] EXCEPT ![t] = [st |-> "wait", must |-> FALSE, saved |-> syncing]]
            IN /\ aref' = IF aref = 0 THEN t ELSE aref
               /\ syncing' = TRUE
               /\ task' = tk /\ ready' = c[3] /\ fut' = c[2]
               /\ Vis([a |-> "tick", t |-> t, what |-> "start", obs |-> ObsOf(val, hasref, aref', fut')])
               /\ UNCHANGED <<val, kind, nasg, hasref>>
       [] task[t].st = "wait" /\ fut[t] = "done" /\ task[t].must ->
            /\ syncing' = task[t].saved
            /\ aref' = IF aref = t THEN 0 ELSE aref
            /\ task' = [task EXCEPT ![t].st = "cancelled"] /\ ready' = r0
            /\ Vis([a |-> "tick", t |-> t, what |-> "cancelled", obs |-> ObsOf(val, hasref, aref', fut)])
            /\ UNCHANGED <<val, kind, nasg, hasref, fut>>
       [] task[t].st = "wait" /\ fut[t] = "done" /\ ~task[t].must ->
            \* wakeup with result: update({p: result}) inside _syncing, then leave scope, finally
            LET unlink == hasref # 0 /\ ~syncing      \* as __set__ sees it now
                c == IF unlink THEN CancelT(aref, task, fut, r0) ELSE <<task, fut, r0>>
                ar1 == IF unlink THEN 0 ELSE aref
            IN /\ val' = 100 + t
               /\ hasref' = IF unlink THEN 0 ELSE hasref
               /\ syncing' = task[t].saved
               /\ aref' = IF ar1 = t THEN 0 ELSE ar1
               /\ task' = [c[1] EXCEPT ![t].st = "done"] /\ fut' = c[2] /\ ready' = c[3]
               /\ Vis([a |-> "tick", t |-> t, what |-> "apply", obs |-> ObsOf(100 + t, hasref', aref', fut')])
               /\ UNCHANGED <<kind, nasg>>
       [] task[t].st = "wait" /\ fut[t] = "cancelled" ->
            /\ syncing' = task[t].saved
            /\ aref' = IF aref = t THEN 0 ELSE aref
            /\ task' = [task EXCEPT ![t].st = "cancelled"] /\ ready' = r0
            /\ Vis([a |-> "tick", t |-> t, what |-> "cancelled", obs |-> ObsOf(val, hasref, aref', fut)])
            /\ UNCHANGED <<val, kind, nasg, hasref, fut>>
       [] OTHER ->
            /\ ready' = r0 /\ Vis([a |-> "tick", t |-> t, what |-> "noop", obs |-> ObsOf(val, hasref, aref, fut)])
            /\ UNCHANGED <<val, kind, nasg, hasref, aref, syncing, task, fut>>

Next == AssignCoro \/ AssignPlain \/ (\E i \in Slots : Resolve(i)) \/ Tick
Spec == Init /\ [][Next]_vars

\* ---- C10
Quiescent == ready = <<>> /\ \A i \in Slots : fut[i] # "pending" \/ task[i].st \notin {"new", "wait"}
Expected == IF nasg = 0 THEN 0 ELSE IF kind[nasg] = "plain" THEN 200 + nasg ELSE 100 + nasg
LatestWins == (Quiescent /\ nasg > 0 /\ (kind[nasg] = "coro" => fut[nasg] = "done")) => val = Expected
Emit == (RecordHist /\ steps = MaxSteps) => PrintT(<<"BEHAVIOUR", ToJson(hist)>>)
====
