import sys, json, re, time, asyncio, collections
sys.path.insert(0,'/repo')
import param
assert param.__file__.startswith('/repo/')
import warnings; warnings.simplefilter('ignore')

class StepLoop(asyncio.AbstractEventLoop):
    """Minimal single-step loop: tick() runs exactly one task step; housekeeping handles run eagerly."""
    def __init__(self): self._q = collections.deque(); self._t = 0.0
    def get_debug(self): return False
    def is_running(self): return True
    def is_closed(self): return False
    def time(self): return self._t
    def create_future(self): return asyncio.Future(loop=self)
    def create_task(self, coro, *, name=None, context=None):
        return asyncio.Task(coro, loop=self, name=name, context=context)
    def call_soon(self, cb, *args, context=None):
        h = asyncio.Handle(cb, args, self, context); self._q.append(h); return h
    def call_exception_handler(self, ctx): self.errors = getattr(self,'errors',[]) + [ctx]
    @staticmethod
    def _is_task_handle(h):
        cb = h._callback
        return 'Task' in type(cb).__name__ or isinstance(getattr(cb, '__self__', None), asyncio.Task)
    def housekeeping(self):
        while self._q and not self._is_task_handle(self._q[0]):
            self._q.popleft()._run()
    def tick(self):
        self.housekeeping()
        if not self._q: return False
        self._q.popleft()._run()
        self.housekeeping()
        return True
    def pending_task_handles(self):
        self.housekeeping(); return len(self._q)

class T(param.Parameterized):
    p = param.Parameter(default=0, allow_refs=True)

def load(fn):
    for line in open(fn):
        m = re.match(r'<<"BEHAVIOUR", "(.*)">>$', line.strip())
        if m: yield json.loads(json.loads('"'+m.group(1)+'"'))

def run(steps):
    loop = StepLoop(); asyncio._set_running_loop(loop)
    try:
        t = T(); futs = {}
        for k, st in enumerate(steps):
            a = st['a']
            if a == 'assign_coro':
                i = st['i']; f = loop.create_future(); futs[i] = f
                async def co(f=f): return await f
                t.p = co
            elif a == 'assign_plain':
                t.p = 200 + st['i']
            elif a == 'resolve':
                futs[st['i']].set_result(100 + st['i'])
            elif a == 'tick':
                if not loop.tick(): return k, 'spec ticks but real loop has nothing ready'
            o = st['obs']
            fstate = []
            for i in (1,2,3):
                f = futs.get(i)
                fstate.append('none' if f is None else 'cancelled' if f.cancelled() else 'done' if f.done() else 'pending')
            got = dict(val=t.p, hasref='p' in t._param__private.refs, aref='p' in t._param__private.async_refs, fut=fstate)
            if got != o: return k, 'obs %s expected %s' % (got, o)
        return None
    finally:
        asyncio._set_running_loop(None)

t0=time.time(); n=0; bad=[]
for steps in load(sys.argv[1]):
    n+=1; r=run(steps)
    if r: bad.append((steps,r))
print('behaviours',n,'diverging',len(bad),'%.1fs'%(time.time()-t0))
for steps,(k,msg) in bad[:5]:
    print(k,msg); print('  ',json.dumps([{kk:vv for kk,vv in s.items() if kk!='obs'} for s in steps[:k+1]]))
