CONSTANTS
 N = 3
 AsBuilt = TRUE
 RecordHist = FALSE
 MaxSteps = 14
INIT Init
NEXT Next
CHECK_DEADLOCK FALSE
INVARIANT LatestWins
