CONSTANTS Vals = {1,2,3}
MaxLen = 99
INIT TraceInit
NEXT TraceNext
CHECK_DEADLOCK FALSE
CONSTRAINT Track
POSTCONDITION Accepted
