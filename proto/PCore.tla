---- MODULE PCore ----
(* Feasibility prototype of ParamCore: one dispatch owner, value watchers,
   batch / discard contexts, update(), trigger(), callbacks that may do any
   user action or raise.  INTENDED semantics (what C03/C04/C05 demand),
   structured like param/parameterized.py. *)
EXTENDS Naturals, Sequences, FiniteSets, TLC, Json

CONSTANTS Params, Vals, Bad, WCfgs, MaxW, MaxOps, MaxStack, RecordHist,
          OnAbort          \* calibrated: "drop" | "flush"  (property is silent)

VARIABLES val, bw, trig, evq, wq, W, stack, exc, nops, hist
vars == <<val, bw, trig, evq, wq, W, stack, exc, nops, hist>>

WIds == 1..Len(W)
Alive(w) == W[w].alive
Watches(w, p) == \E i \in 1..Len(W[w].ps) : W[w].ps[i] = p
Precs == {0, 1}

RECURSIVE SortByPrec(_, _)
SortByPrec(s, precs) ==
  IF precs = {} THEN <<>>
  ELSE LET m == CHOOSE x \in precs : \A y \in precs : x <= y
       IN SelectSeq(s, LAMBDA w : W[w].prec = m) \o SortByPrec(s, precs \ {m})

RegSeq(p) == SelectSeq([i \in WIds |-> i], LAMBDA w : Alive(w) /\ Watches(w, p))
InSeq(x, s) == \E i \in 1..Len(s) : s[i] = x
Top == stack[Len(stack)]
Pop == SubSeq(stack, 1, Len(stack) - 1)
IsUser(f) == f.k \in {"cb", "ctx"}
UserPoint == ~exc /\ (IF stack = <<>> THEN TRUE ELSE IsUser(Top))
CanOp == UserPoint /\ nops < MaxOps /\ Len(stack) < MaxStack

\* ---- visible history -------------------------------------------------
Obs(v, b) == [val |-> v, batching |-> b]
Vis(rec) == hist' = IF RecordHist THEN Append(hist, rec) ELSE hist
NoVis == UNCHANGED hist

Init == /\ val = [p \in Params |-> 0] /\ bw = FALSE /\ trig = FALSE
        /\ evq = <<>> /\ wq = <<>> /\ W = <<>> /\ stack = <<>> /\ exc = FALSE
        /\ nops = 0 /\ hist = <<>>

\* ---- scenario tags (known-finding classifiers, computed by the spec) --
OpenCtx == \E i \in 1..Len(stack) : stack[i].k = "ctx"
InQueuedCb == \E i \in 1..Len(stack) : stack[i].k = "cb" /\ W[stack[i].w].q
Tags(extra) == extra

\* ---- user actions ----------------------------------------------------
Watch(cfg) ==
  /\ ~exc /\ stack = <<>> /\ Len(W) < MaxW /\ nops < MaxOps
  /\ W' = Append(W, cfg @@ [alive |-> TRUE]) /\ nops' = nops + 1
  /\ Vis([a |-> "watch", cfg |-> cfg, w |-> Len(W) + 1,
          kf |-> IF \E w1, w2 \in 1..Len(W') : W'[w1].oc /\ ~W'[w2].oc /\ Len(W'[w1].ps) > 1
                       /\ \E i \in 1..Len(W'[w2].ps) : \E j \in 1..Len(W'[w1].ps) : W'[w2].ps[i] = W'[w1].ps[j]
                 THEN {"KF_MixedQualify"} ELSE {}])
  /\ UNCHANGED <<val, bw, trig, evq, wq, stack, exc>>

Unwatch(w) ==
  /\ ~exc /\ stack = <<>> /\ w \in WIds /\ Alive(w) /\ nops < MaxOps
  /\ W' = [W EXCEPT ![w].alive = FALSE] /\ nops' = nops + 1
  /\ Vis([a |-> "unwatch", w |-> w, kf |-> {}])
  /\ UNCHANGED <<val, bw, trig, evq, wq, stack, exc>>

SetFrame(p, v, ret) == [k |-> "set", p |-> p, old |-> val[p], new |-> v, bw0 |-> bw,
                        pend |-> SortByPrec(RegSeq(p), Precs), ret |-> ret]

Set(p, v) ==
  /\ CanOp /\ nops' = nops + 1
  /\ IF v = Bad
     THEN /\ Vis([a |-> "set", p |-> p, v |-> v, res |-> "rejected", obs |-> Obs(val, bw), kf |-> {}])
          /\ UNCHANGED <<val, bw, trig, evq, wq, W, stack, exc>>
     ELSE /\ val' = [val EXCEPT ![p] = v]
          /\ stack' = Append(stack, SetFrame(p, v, TRUE))
          /\ Vis([a |-> "set", p |-> p, v |-> v, res |-> "begin", kf |-> {}])
          /\ UNCHANGED <<bw, trig, evq, wq, W, exc>>

Update(items) ==   \* items: sequence of <<p, v>>
  /\ CanOp /\ nops' = nops + 1
  /\ stack' = Append(stack, [k |-> "update", items |-> items, saved |-> bw, fin |-> FALSE, quiet |-> FALSE])
  /\ bw' = TRUE
  /\ Vis([a |-> "update", items |-> items, res |-> "begin",
          kf |-> IF \E i \in 1..Len(items) : items[i][2] = Bad THEN {"KF_UpdateRejects"} ELSE {}])
  /\ UNCHANGED <<val, trig, evq, wq, W, exc>>

Trigger(p) ==
  /\ CanOp /\ nops' = nops + 1
  /\ stack' = Append(Append(stack, [k |-> "trigger", pevq |-> evq, pwq |-> wq]),
                     [k |-> "update", items |-> <<<<p, val[p]>>>>, saved |-> bw, fin |-> FALSE, quiet |-> TRUE])
  /\ evq' = <<>> /\ wq' = <<>> /\ trig' = TRUE /\ bw' = TRUE
  /\ Vis([a |-> "trigger", p |-> p, res |-> "begin", kf |-> IF bw THEN {"KF_TriggerWhileBatching"} ELSE {}])
  /\ UNCHANGED <<val, W, exc>>

EnterCtx(kind) ==
  /\ CanOp /\ nops' = nops + 1
  /\ stack' = Append(stack, [k |-> "ctx", kind |-> kind, saved |-> bw, sevq |-> evq, swq |-> wq])
  /\ bw' = TRUE
  /\ Vis([a |-> "enter", kind |-> kind, kf |-> {}])
  /\ UNCHANGED <<val, trig, evq, wq, W, exc>>

ExitCtx(raising) ==
  /\ UserPoint /\ stack # <<>> /\ Top.k = "ctx"
  /\ bw' = Top.saved
  /\ IF Top.kind = "discard"
     THEN /\ evq' = Top.sevq /\ wq' = Top.swq
          /\ stack' = Pop /\ exc' = raising
     ELSE /\ UNCHANGED <<evq, wq>>
          /\ IF Top.saved
             THEN stack' = Pop /\ exc' = raising
             ELSE /\ stack' = Append(Append(Pop, [k |-> "after", reraise |-> raising, what |-> "exit"]),
                                     [k |-> "flush", pend |-> <<>>, evd |-> <<>>])
                  /\ exc' = FALSE
  /\ Vis([a |-> "exit", raising |-> raising, kf |-> {}])
  /\ UNCHANGED <<val, trig, W, nops>>

Return == /\ UserPoint /\ stack # <<>> /\ Top.k = "cb"
          /\ bw' = Top.saved /\ stack' = Pop
          /\ Vis([a |-> "ret", kf |-> {}])
          /\ UNCHANGED <<val, trig, evq, wq, W, nops, exc>>

Raise == /\ UserPoint /\ stack # <<>> /\ Top.k = "cb"
         /\ bw' = Top.saved /\ stack' = Pop /\ exc' = TRUE
         /\ Vis([a |-> "raise", kf |-> {"KF_CallbackRaises"}])
         /\ UNCHANGED <<val, trig, evq, wq, W, nops>>

\* ---- internal steps ----------------------------------------------------
Qualifies(w, old, new) == trig \/ ~W[w].oc \/ old # new
EvType(w, trg) == IF trg THEN "triggered" ELSE IF W[w].oc THEN "changed" ELSE "set"

Done(what) == Vis([a |-> "done", what |-> what, obs |-> Obs(val, bw), kf |-> {}])

StepSet ==
  /\ ~exc /\ stack # <<>> /\ Top.k = "set"
  /\ LET f == Top IN
     IF f.pend # <<>> THEN
        LET w == Head(f.pend)
            f2 == [f EXCEPT !.pend = Tail(f.pend)]
        IN IF ~Qualifies(w, f.old, f.new)
           THEN /\ stack' = Append(Pop, f2) /\ NoVis
                /\ UNCHANGED <<val, bw, trig, evq, wq, W, nops, exc>>
           ELSE IF bw
           THEN /\ evq' = Append(evq, [w |-> w, name |-> f.p, old |-> f.old, new |-> f.new, trg |-> trig])
                /\ wq' = IF InSeq(w, wq) THEN wq ELSE Append(wq, w)
                /\ stack' = Append(Pop, f2) /\ NoVis
                /\ UNCHANGED <<val, bw, trig, W, nops, exc>>
           ELSE /\ stack' = Append(Append(Pop, f2), [k |-> "cb", w |-> w, saved |-> bw])
                /\ bw' = W[w].q
                /\ Vis([a |-> "call", w |-> w,
                        evs |-> <<[name |-> f.p, old |-> f.old, new |-> f.new, type |-> EvType(w, trig)]>>,
                        obs |-> Obs(val, bw), kf |-> {}])
                /\ UNCHANGED <<val, trig, evq, wq, W, nops, exc>>
     ELSE IF bw \/ evq = <<>>
          THEN /\ stack' = Pop /\ (IF f.ret THEN Done("set") ELSE NoVis)
               /\ UNCHANGED <<val, bw, trig, evq, wq, W, nops, exc>>
          ELSE /\ stack' = Append(Append(Pop, [k |-> "after", reraise |-> FALSE, what |-> IF f.ret THEN "set" ELSE "none"]),
                                  [k |-> "flush", pend |-> <<>>, evd |-> <<>>])
               /\ NoVis
               /\ UNCHANGED <<val, bw, trig, evq, wq, W, nops, exc>>

HasEv(w, p, q) == \E i \in 1..Len(q) : q[i].w = w /\ q[i].name = p
LastEv(w, p, q) == LET idx == {i \in 1..Len(q) : q[i].w = w /\ q[i].name = p}
                   IN q[CHOOSE i \in idx : \A j \in idx : j <= i]

StepFlush ==
  /\ ~exc /\ stack # <<>> /\ Top.k = "flush"
  /\ LET f == Top IN
     IF f.pend = <<>> THEN
        IF evq = <<>> THEN /\ stack' = Pop /\ NoVis
                          /\ UNCHANGED <<val, bw, trig, evq, wq, W, nops, exc>>
        ELSE /\ stack' = Append(Pop, [k |-> "flush", pend |-> SortByPrec(wq, Precs), evd |-> evq])
             /\ evq' = <<>> /\ wq' = <<>> /\ NoVis
             /\ UNCHANGED <<val, bw, trig, W, nops, exc>>
     ELSE LET w == Head(f.pend)
              names == SelectSeq(W[w].ps, LAMBDA p : HasEv(w, p, f.evd))
              evs == [i \in 1..Len(names) |->
                        LET e == LastEv(w, names[i], f.evd) IN
                        [name |-> names[i], old |-> e.old, new |-> e.new, type |-> EvType(w, e.trg)]]
          IN /\ stack' = Append(Append(Pop, [f EXCEPT !.pend = Tail(f.pend)]), [k |-> "cb", w |-> w, saved |-> bw])
             /\ bw' = (W[w].q \/ bw)
             /\ Vis([a |-> "call", w |-> w, evs |-> evs, obs |-> Obs(val, bw), kf |-> {}])
             /\ UNCHANGED <<val, trig, evq, wq, W, nops, exc>>

StepUpdate ==
  /\ ~exc /\ stack # <<>> /\ Top.k = "update"
  /\ LET f == Top IN
     IF f.fin THEN   \* returned from the final flush
          /\ stack' = Pop /\ (IF f.quiet THEN NoVis ELSE Done("update"))
          /\ UNCHANGED <<val, bw, trig, evq, wq, W, nops, exc>>
     ELSE IF f.items = <<>> THEN
          /\ bw' = f.saved
          /\ IF f.saved \/ evq = <<>>
             THEN stack' = Append(Pop, [f EXCEPT !.fin = TRUE])
             ELSE stack' = Append(Append(Pop, [f EXCEPT !.fin = TRUE]), [k |-> "flush", pend |-> <<>>, evd |-> <<>>])
          /\ NoVis
          /\ UNCHANGED <<val, trig, evq, wq, W, nops, exc>>
     ELSE LET p == Head(f.items)[1]
              v == Head(f.items)[2]
              f2 == [f EXCEPT !.items = Tail(f.items)]
          IN IF v = Bad
             THEN \* rejected value: finally-semantics: restore flag, announce applied changes, re-raise
                  /\ bw' = f.saved
                  /\ IF f.saved \/ evq = <<>>
                     THEN stack' = Pop /\ exc' = TRUE
                     ELSE /\ stack' = Append(Append(Pop, [k |-> "after", reraise |-> TRUE, what |-> "none"]),
                                             [k |-> "flush", pend |-> <<>>, evd |-> <<>>])
                          /\ exc' = FALSE
                  /\ NoVis
                  /\ UNCHANGED <<val, trig, evq, wq, W, nops>>
             ELSE /\ val' = [val EXCEPT ![p] = v]
                  /\ stack' = Append(Append(Pop, f2), SetFrame(p, v, FALSE))
                  /\ NoVis
                  /\ UNCHANGED <<bw, trig, evq, wq, W, nops, exc>>

\* de-duplicating merge of the parked watcher queue
RECURSIVE MergeW(_, _)
MergeW(a, b) == IF b = <<>> THEN a
                ELSE MergeW(IF InSeq(Head(b), a) THEN a ELSE Append(a, Head(b)), Tail(b))

StepTrigger ==
  /\ ~exc /\ stack # <<>> /\ Top.k = "trigger"
  /\ trig' = FALSE
  /\ evq' = evq \o Top.pevq /\ wq' = MergeW(wq, Top.pwq)
  /\ stack' = Pop /\ Done("trigger")
  /\ UNCHANGED <<val, bw, W, nops, exc>>

StepAfter ==
  /\ ~exc /\ stack # <<>> /\ Top.k = "after"
  /\ stack' = Pop /\ exc' = Top.reraise
  /\ IF Top.what \in {"set", "exit"} /\ ~Top.reraise THEN Done(Top.what) ELSE NoVis
  /\ UNCHANGED <<val, bw, trig, evq, wq, W, nops>>

Unwind ==
  /\ exc
  /\ IF (IF stack = <<>> THEN TRUE ELSE IsUser(Top))
     THEN /\ exc' = FALSE
          /\ Vis([a |-> "caught", obs |-> Obs(val, bw), kf |-> {}])
          /\ UNCHANGED <<val, bw, trig, evq, wq, W, stack, nops>>
     ELSE LET f == Top IN
          CASE f.k \in {"set", "flush"} ->
                 IF ~bw /\ evq # <<>>
                 THEN IF OnAbort = "drop"
                      THEN /\ evq' = <<>> /\ wq' = <<>> /\ stack' = Pop /\ NoVis
                           /\ UNCHANGED <<val, bw, trig, W, nops, exc>>
                      ELSE /\ stack' = Append(Append(Pop, [k |-> "after", reraise |-> TRUE, what |-> "none"]),
                                              [k |-> "flush", pend |-> <<>>, evd |-> <<>>])
                           /\ exc' = FALSE /\ NoVis
                           /\ UNCHANGED <<val, bw, trig, evq, wq, W, nops>>
                 ELSE /\ stack' = Pop /\ NoVis /\ UNCHANGED <<val, bw, trig, evq, wq, W, nops, exc>>
            [] f.k = "update" ->
                 /\ bw' = f.saved
                 /\ IF f.saved \/ evq = <<>> \/ f.fin
                    THEN stack' = Pop /\ UNCHANGED exc
                    ELSE /\ stack' = Append(Append(Pop, [k |-> "after", reraise |-> TRUE, what |-> "none"]),
                                            [k |-> "flush", pend |-> <<>>, evd |-> <<>>])
                         /\ exc' = FALSE
                 /\ NoVis /\ UNCHANGED <<val, trig, evq, wq, W, nops>>
            [] f.k = "trigger" ->
                 /\ trig' = FALSE /\ evq' = evq \o f.pevq /\ wq' = MergeW(wq, f.pwq)
                 /\ stack' = Pop /\ NoVis /\ UNCHANGED <<val, bw, W, nops, exc>>
            [] OTHER -> /\ stack' = Pop /\ NoVis /\ UNCHANGED <<val, bw, trig, evq, wq, W, nops, exc>>

Items == {<<<<p, v>>>> : p \in Params, v \in Vals \cup {Bad}}
           \cup UNION {{<<<<p, v>>, <<q, u>>>> : q \in Params \ {p}, v \in Vals, u \in Vals \cup {Bad}} : p \in Params}

Next == \/ \E cfg \in WCfgs : Watch(cfg)
        \/ \E w \in WIds : Unwatch(w)
        \/ \E p \in Params, v \in Vals \cup {Bad} : Set(p, v)
        \/ \E it \in Items : Update(it)
        \/ \E p \in Params : Trigger(p)
        \/ \E kind \in {"batch", "discard"} : EnterCtx(kind)
        \/ ExitCtx(FALSE) \/ ExitCtx(TRUE) \/ Return \/ Raise
        \/ StepSet \/ StepFlush \/ StepUpdate \/ StepTrigger \/ StepAfter \/ Unwind

Spec == Init /\ [][Next]_vars

\* ---- properties (the clauses of C04 / C05 that need no ghost state) ----
NoCallUnderCtx == \A i, j \in 1..Len(stack) : (i < j /\ stack[i].k = "ctx") => stack[j].k # "cb"
QuiescentClean == (stack = <<>> /\ ~exc) => (bw = FALSE /\ trig = FALSE /\ evq = <<>> /\ wq = <<>>)
StillBatched == \A i \in 1..Len(stack) : (stack[i].k = "ctx" /\ UserPoint /\ i = Len(stack)) => bw
NoDupQueued == \A i, j \in 1..Len(wq) : i # j => wq[i] # wq[j]
Emit == (RecordHist /\ stack = <<>> /\ ~exc /\ nops = MaxOps) => PrintT(<<"BEHAVIOUR", ToJson(hist)>>)
====
