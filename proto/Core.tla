---- MODULE Core ----
EXTENDS Naturals, Sequences, FiniteSets, TLC

CONSTANTS Params, Vals, Bad, WDefs, MaxOps, MaxStack

\* WDefs : sequence of watcher records [ps |-> seq of params, oc |-> BOOLEAN, q |-> BOOLEAN, prec |-> Nat]
VARIABLES val, bw, evq, wq, stack, nops, exc, out

vars == <<val, bw, evq, wq, stack, nops, exc, out>>

WIds == 1..Len(WDefs)
Watches(w, p) == \E i \in 1..Len(WDefs[w].ps) : WDefs[w].ps[i] = p
Precs == {WDefs[w].prec : w \in WIds}

RECURSIVE SortByPrec(_, _)
\* stable sort of a sequence of watcher ids by precedence
SortByPrec(s, precs) ==
  IF precs = {} THEN <<>>
  ELSE LET m == CHOOSE x \in precs : \A y \in precs : x <= y
       IN SelectSeq(s, LAMBDA w : WDefs[w].prec = m) \o SortByPrec(s, precs \ {m})

RegSeq(p) == SelectSeq([i \in WIds |-> i], LAMBDA w : Watches(w, p))

Top == stack[Len(stack)]
Pop == SubSeq(stack, 1, Len(stack) - 1)
UserPoint == ~exc /\ (IF stack = <<>> THEN TRUE ELSE Top.k \in {"cb", "ctx"})

InSeq(x, s) == \E i \in 1..Len(s) : s[i] = x

Init == /\ val = [p \in Params |-> 0]
        /\ bw = FALSE /\ evq = <<>> /\ wq = <<>> /\ stack = <<>>
        /\ nops = 0 /\ exc = FALSE /\ out = [k |-> "init"]

\* ---------------- user actions
Set(p, v) ==
  /\ UserPoint /\ nops < MaxOps /\ Len(stack) < MaxStack
  /\ nops' = nops + 1
  /\ IF v = Bad
     THEN /\ out' = [k |-> "rejected", p |-> p]
          /\ UNCHANGED <<val, bw, evq, wq, stack, exc>>
     ELSE /\ val' = [val EXCEPT ![p] = v]
          /\ stack' = Append(stack, [k |-> "set", p |-> p, old |-> val[p], new |-> v,
                                     pend |-> SortByPrec(RegSeq(p), Precs)])
          /\ out' = [k |-> "set", p |-> p, v |-> v]
          /\ UNCHANGED <<bw, evq, wq, exc>>

EnterBatch ==
  /\ UserPoint /\ nops < MaxOps /\ Len(stack) < MaxStack
  /\ nops' = nops + 1
  /\ stack' = Append(stack, [k |-> "ctx", kind |-> "batch", saved |-> bw])
  /\ bw' = TRUE
  /\ out' = [k |-> "enter"]
  /\ UNCHANGED <<val, evq, wq, exc>>

ExitCtx(raising) ==
  /\ UserPoint /\ stack # <<>> /\ Top.k = "ctx"
  /\ bw' = Top.saved
  /\ stack' = IF Top.saved THEN Pop
              ELSE Append(Append(Pop, [k |-> "after", reraise |-> raising]), [k |-> "flush", pend |-> <<>>, evd |-> <<>>])
  /\ exc' = (raising /\ Top.saved)
  /\ out' = [k |-> "exit", raising |-> raising]
  /\ UNCHANGED <<val, evq, wq, nops>>

Return == /\ UserPoint /\ stack # <<>> /\ Top.k = "cb"
          /\ bw' = Top.saved /\ stack' = Pop
          /\ out' = [k |-> "ret"]
          /\ UNCHANGED <<val, evq, wq, nops, exc>>

Raise == /\ UserPoint /\ stack # <<>> /\ Top.k = "cb"
         /\ bw' = Top.saved /\ stack' = Pop /\ exc' = TRUE
         /\ out' = [k |-> "raise"]
         /\ UNCHANGED <<val, evq, wq, nops>>

\* ---------------- internal steps
Ev(f) == [name |-> f.p, old |-> f.old, new |-> f.new]

StepSet ==
  /\ ~exc /\ stack # <<>> /\ Top.k = "set"
  /\ LET f == Top IN
     IF f.pend # <<>> THEN
        LET w == Head(f.pend)
            f2 == [f EXCEPT !.pend = Tail(f.pend)]
        IN IF WDefs[w].oc /\ f.old = f.new
           THEN /\ stack' = Append(Pop, f2) /\ out' = [k |-> "skip", w |-> w]
                /\ UNCHANGED <<val, bw, evq, wq, nops, exc>>
           ELSE IF bw
           THEN /\ evq' = Append(evq, Ev(f))
                /\ wq' = IF InSeq(w, wq) THEN wq ELSE Append(wq, w)
                /\ stack' = Append(Pop, f2) /\ out' = [k |-> "queue", w |-> w]
                /\ UNCHANGED <<val, bw, nops, exc>>
           ELSE /\ stack' = Append(Append(Pop, f2), [k |-> "cb", w |-> w, saved |-> bw])
                /\ bw' = WDefs[w].q
                /\ out' = [k |-> "call", w |-> w, evs |-> <<[name |-> f.p, old |-> f.old, new |-> f.new,
                                                         type |-> IF WDefs[w].oc THEN "changed" ELSE "set"]>>]
                /\ UNCHANGED <<val, evq, wq, nops, exc>>
     ELSE IF bw
          THEN /\ stack' = Pop /\ out' = [k |-> "setdone"]
               /\ UNCHANGED <<val, bw, evq, wq, nops, exc>>
          ELSE /\ stack' = Append(Pop, [k |-> "flush", pend |-> <<>>, evd |-> <<>>])
               /\ out' = [k |-> "setflush"]
               /\ UNCHANGED <<val, bw, evq, wq, nops, exc>>

LastEv(p, q) == LET idx == {i \in 1..Len(q) : q[i].name = p}
                IN q[CHOOSE i \in idx : \A j \in idx : j <= i]
HasEv(p, q) == \E i \in 1..Len(q) : q[i].name = p

StepFlush ==
  /\ ~exc /\ stack # <<>> /\ Top.k = "flush"
  /\ LET f == Top IN
     IF f.pend = <<>> THEN
        IF evq = <<>> THEN /\ stack' = Pop /\ out' = [k |-> "flushdone"]
                          /\ UNCHANGED <<val, bw, evq, wq, nops, exc>>
        ELSE /\ stack' = Append(Pop, [k |-> "flush", pend |-> SortByPrec(wq, Precs), evd |-> evq])
             /\ evq' = <<>> /\ wq' = <<>> /\ out' = [k |-> "round"]
             /\ UNCHANGED <<val, bw, nops, exc>>
     ELSE LET w == Head(f.pend)
              names == SelectSeq(WDefs[w].ps, LAMBDA p : HasEv(p, f.evd))
              evs == [i \in 1..Len(names) |->
                        [name |-> names[i], old |-> LastEv(names[i], f.evd).old, new |-> LastEv(names[i], f.evd).new,
                         type |-> IF WDefs[w].oc THEN "changed" ELSE "set"]]
          IN /\ stack' = Append(Append(Pop, [f EXCEPT !.pend = Tail(f.pend)]), [k |-> "cb", w |-> w, saved |-> bw])
             /\ bw' = (WDefs[w].q \/ bw)
             /\ out' = [k |-> "call", w |-> w, evs |-> evs]
             /\ UNCHANGED <<val, evq, wq, nops, exc>>

StepAfter ==
  /\ ~exc /\ stack # <<>> /\ Top.k = "after"
  /\ stack' = Pop /\ exc' = Top.reraise /\ out' = [k |-> "after"]
  /\ UNCHANGED <<val, bw, evq, wq, nops>>

Unwind ==
  /\ exc
  /\ IF stack = <<>> \/ Top.k \in {"cb", "ctx"}
     THEN /\ exc' = FALSE /\ out' = [k |-> "caught"] /\ UNCHANGED <<val, bw, evq, wq, stack, nops>>
     ELSE /\ stack' = Pop /\ out' = [k |-> "unwind", f |-> Top.k] /\ UNCHANGED <<val, bw, evq, wq, nops, exc>>

Next == \/ \E p \in Params, v \in Vals \cup {Bad} : Set(p, v)
        \/ EnterBatch \/ ExitCtx(FALSE) \/ ExitCtx(TRUE) \/ Return \/ Raise
        \/ StepSet \/ StepFlush \/ StepAfter \/ Unwind

Spec == Init /\ [][Next]_vars

\* ---------------- properties
NoCallUnderCtx == \A i, j \in 1..Len(stack) : (i < j /\ stack[i].k = "ctx") => stack[j].k # "cb"
QuiescentClean == (stack = <<>> /\ ~exc) => (bw = FALSE /\ evq = <<>> /\ wq = <<>>)
TypeOK == nops <= MaxOps
====
