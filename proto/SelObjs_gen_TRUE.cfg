CONSTANTS
 Objects = {1,2,3,4}
 Keys = {1,2,3}
 MaxOps = 3
 RecordHist = TRUE
 DictDeclared = TRUE
INIT Init
NEXT Next
CHECK_DEADLOCK FALSE
INVARIANT Emit
