CONSTANTS
 Objects = {1,2,3,4}
 Keys = {1,2,3}
 MaxOps = 5
 RecordHist = FALSE
 DictDeclared = FALSE
INIT Init
NEXT Next
CHECK_DEADLOCK FALSE
INVARIANT ViewsAgree
INVARIANT Unique
