CONSTANTS Vals = {1,2}
MaxLen = 6
INIT Init
NEXT Next
INVARIANT Emit
