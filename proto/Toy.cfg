CONSTANTS Vals = {1,2}
MaxLen = 2
INIT Init
NEXT Next
CONSTRAINT Bound
INVARIANT Emit
