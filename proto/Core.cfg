CONSTANTS
 Params = {"a","b"}
 Vals = {0,1}
 Bad = 9
 WDefs <- WD
 MaxOps = 6
 MaxStack = 6
INIT Init
NEXT Next
INVARIANT NoCallUnderCtx
INVARIANT QuiescentClean
CHECK_DEADLOCK FALSE
