---- MODULE MCCore ----
EXTENDS Core
WD == << [ps |-> <<"a","b">>, oc |-> TRUE, q |-> FALSE, prec |-> 0],
         [ps |-> <<"a">>, oc |-> FALSE, q |-> TRUE, prec |-> 1],
         [ps |-> <<"b">>, oc |-> TRUE, q |-> FALSE, prec |-> 0] >>
====
