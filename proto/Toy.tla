---- MODULE Toy ----
EXTENDS Naturals, Sequences, TLC, Json, FiniteSets
CONSTANTS Vals, MaxLen
VARIABLES x, hist
vars == <<x, hist>>
Init == x = 0 /\ hist = <<>>
Set(v) == /\ x' = v
          /\ hist' = Append(hist, [act |-> [name |-> "Set", v |-> v], obs |-> [x |-> v, tag |-> "ok", s |-> {1,2}]])
Next == \E v \in Vals : Set(v)
Spec == Init /\ [][Next]_vars
Bound == Len(hist) <= MaxLen
\* emit each maximal history
Emit == (Len(hist) = MaxLen) => PrintT(<<"BEHAVIOUR", ToJson(hist)>>)
View == x
====
