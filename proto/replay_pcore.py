"""Throwaway prototype: replay PCore behaviours into real param (re-entrant driver)."""
import sys, json, re, time, collections
sys.path.insert(0, '/repo')
import param
from param.parameterized import batch_call_watchers, discard_events
assert param.__file__.startswith('/repo/'), param.__file__

BAD = 9
class Boom(Exception): pass
class Diverge(Exception):
    def __init__(self, i, msg): self.i = i; self.msg = msg

def make_class():
    class P(param.Parameterized):
        a = param.Integer(0, bounds=(0, 5))
        b = param.Integer(0, bounds=(0, 5))
    return P
P = make_class()

class Runner:
    def __init__(self, steps):
        self.steps = steps; self.i = 0
        self.p = P(); self.w = {}; self.ctx = []; self.tags = set()
    def peek(self):
        return self.steps[self.i] if self.i < len(self.steps) else None
    def take(self):
        st = self.steps[self.i]; self.tags |= set(st.get('kf', [])); self.i += 1; return st
    def vals(self):
        return {'a': self.p.a, 'b': self.p.b}
    def check_obs(self, st, what):
        if 'obs' in st and st['obs']['val'] != self.vals():
            raise Diverge(self.i, '%s: values %s expected %s' % (what, self.vals(), st['obs']['val']))
    # ---- called from inside the real callback
    def on_call(self, wid, events):
        st = self.peek()
        got = [(e.name, e.new, e.type) for e in events]
        if st is None or st['a'] != 'call':
            raise Diverge(self.i, 'unexpected call of w%d %s; spec expects %s' % (wid, got, st and st['a']))
        exp = [(e['name'], e['new'], e['type']) for e in st['evs']]
        if st['w'] != wid or exp != got:
            raise Diverge(self.i, 'call mismatch: got w%d %s expected w%d %s' % (wid, got, st['w'], exp))
        self.check_obs(st, 'at call')
        self.take()
        self.user_frame('cb')
    def user_frame(self, kind):
        while True:
            st = self.peek()
            if st is None:
                if kind == 'top': return
                raise Diverge(self.i, 'behaviour ended inside %s' % kind)
            a = st['a']
            if a == 'ret':
                if kind != 'cb': raise Diverge(self.i, 'ret outside cb')
                self.take(); return
            if a == 'raise':
                self.take(); raise Boom()
            if a in ('watch', 'unwatch', 'set', 'update', 'trigger', 'enter', 'exit'):
                self.perform(self.take())
            else:
                raise Diverge(self.i, 'spec expects %s but control is in user code (%s)' % (a, kind))
    def perform(self, st):
        a = st['a']; p = self.p
        try:
            if a == 'watch':
                c = st['cfg']; wid = st['w']
                self.w[wid] = p.param.watch(lambda *ev, wid=wid: self.on_call(wid, ev), list(c['ps']),
                                            onlychanged=c['oc'], queued=c['q'], precedence=c['prec'])
                return
            if a == 'unwatch':
                p.param.unwatch(self.w[st['w']]); return
            if a == 'enter':
                cm = batch_call_watchers(p) if st['kind'] == 'batch' else discard_events(p)
                cm.__enter__(); self.ctx.append(cm); return
            if a == 'set':
                setattr(p, st['p'], st['v'] if st['v'] != BAD else 99)
            elif a == 'update':
                p.param.update({k: (v if v != BAD else 99) for k, v in st['items']})
            elif a == 'trigger':
                p.param.trigger(st['p'])
            elif a == 'exit':
                cm = self.ctx.pop()
                if st['raising']:
                    e = Boom()
                    if not cm.__exit__(Boom, e, None): raise e
                else:
                    cm.__exit__(None, None, None)
            outcome = 'ok'
        except Boom:
            outcome = 'raised'
        except ValueError:
            outcome = 'rejected'
        if a == 'set' and st['res'] == 'rejected':
            if outcome != 'rejected': raise Diverge(self.i, 'expected rejection, got %s' % outcome)
            self.check_obs(st, 'after rejection'); return
        nxt = self.peek()
        if outcome == 'ok':
            if nxt is not None and nxt['a'] == 'done':
                self.check_obs(nxt, 'done'); self.take()
            elif nxt is not None and nxt['a'] in ('call', 'caught'):
                raise Diverge(self.i, '%s returned normally but spec expects %s' % (a, nxt['a']))
        else:
            if nxt is None or nxt['a'] != 'caught':
                raise Diverge(self.i, '%s %s but spec expects %s' % (a, outcome, nxt and nxt['a']))
            self.check_obs(nxt, 'caught'); self.take()

def load(fn):
    for line in open(fn):
        m = re.match(r'<<"BEHAVIOUR", "(.*)">>$', line.strip())
        if m: yield json.loads(json.loads('"' + m.group(1) + '"'))

OPEN = set(sys.argv[2].split(',')) if len(sys.argv) > 2 else set()
t = time.time(); n = 0; ok = 0; kf = collections.Counter(); viol = []
for steps in load(sys.argv[1]):
    n += 1
    r = Runner(steps)
    try:
        r.user_frame('top')
        if r.i != len(steps): raise Diverge(r.i, 'code finished early; spec expects %s' % steps[r.i]['a'])
        ok += 1
    except Diverge as d:
        alltags = set(t for s in steps[:d.i + 1] for t in s.get('kf', []))
        hit = alltags & OPEN
        if hit: kf[tuple(sorted(hit))] += 1
        else: viol.append((steps, d))
    except Boom:
        viol.append((steps, Diverge(r.i, 'Boom escaped to top')))
print('behaviours', n, 'conform', ok, 'known', dict(kf), 'violations', len(viol), '%.1fs' % (time.time() - t))
sig = collections.Counter()
ex = {}
for steps, d in viol:
    key = re.sub(r'\d+', 'N', d.msg)[:90]
    sig[key] += 1; ex.setdefault(key, (steps, d))
for k, c in sig.most_common(12):
    steps, d = ex[k]
    print('---', c, 'x', d.msg)
    print('   ', json.dumps([{kk: vv for kk, vv in s.items() if kk not in ('kf',)} for s in steps[:d.i + 1]])[:700])
