import sys; sys.argv=['x','aref_beh.txt']
exec(open('replay_aref.py').read().split("t0=time.time()")[0])
loop=StepLoop(); asyncio._set_running_loop(loop)
t=T(); futs={}
def show(tag): print(tag, [ (type(h._callback).__name__, getattr(h._callback,'__name__',None)) for h in loop._q], 'aref', dict(t._param__private.async_refs).keys())
for i in (1,2,3):
    f=loop.create_future(); futs[i]=f
    async def co(f=f): return await f
    t.p=co
show('after 3 assigns')
futs[1].set_result(101); show('after resolve 1')
loop.tick(); show('after tick1')
loop.tick(); show('after tick2')
loop.tick(); show('after tick3')
