CONSTANTS
 Params = {"a","b"}
 Vals = {0,1}
 Bad = 9
 WCfgs <- WC
 MaxW = 2
 MaxOps = 3
 MaxStack = 6
 RecordHist = TRUE
 OnAbort = "drop"
INIT Init
NEXT Next
CHECK_DEADLOCK FALSE
INVARIANT Emit
