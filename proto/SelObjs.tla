---- MODULE SelObjs ----
EXTENDS Naturals, Sequences, FiniteSets, TLC, Json

CONSTANTS Objects,      \* pool of distinct object tokens
          Keys,         \* pool of names
          MaxOps, RecordHist, DictDeclared

VARIABLES objs,    \* sequence of objects (the list view)
          names,   \* sequence of <<key, obj>> pairs (ordered mapping); <<>> if list style
          nops, hist

vars == <<objs, names, nops, hist>>

Range(s) == {s[i] : i \in 1..Len(s)}
KeysOf(nm) == {nm[i][1] : i \in 1..Len(nm)}
ValsOf(nm) == [i \in 1..Len(nm) |-> nm[i][2]]
Lookup(nm, k) == LET i == CHOOSE j \in 1..Len(nm) : nm[j][1] = k IN nm[i][2]
RemoveAt(s, i) == SubSeq(s, 1, i-1) \o SubSeq(s, i+1, Len(s))
IndexOf(s, x) == CHOOSE i \in 1..Len(s) : s[i] = x

Obs == [objs |-> objs, names |-> names]

Rec(name, args, ret, tags) ==
  hist' = IF RecordHist THEN Append(hist, [act |-> [name |-> name] @@ args, ret |-> ret, obs |-> [objs |-> objs', names |-> names'], kf |-> tags]) ELSE hist

Init == \E n \in 1..2 :
          LET o == [i \in 1..n |-> i]
              nm == IF DictDeclared THEN [i \in 1..n |-> <<i, o[i]>>] ELSE <<>> IN
          /\ objs = o /\ names = nm /\ nops = 0
          /\ hist = IF RecordHist THEN <<[act |-> [name |-> "init"], ret |-> "none", obs |-> [objs |-> o, names |-> nm], kf |-> {}]>> ELSE <<>>

Step == nops < MaxOps /\ nops' = nops + 1

\* list-style
Append_(x) == /\ Step /\ ~DictDeclared /\ x \notin Range(objs)
              /\ objs' = Append(objs, x) /\ UNCHANGED names
              /\ Rec("append", [x |-> x], "none", {})
Insert_(i, x) == /\ Step /\ ~DictDeclared /\ x \notin Range(objs) /\ i \in 0..Len(objs)
                 /\ objs' = SubSeq(objs, 1, i) \o <<x>> \o SubSeq(objs, i+1, Len(objs)) /\ UNCHANGED names
                 /\ Rec("insert", [i |-> i, x |-> x], "none", {})
PopIndex(i) == /\ Step /\ i \in 1..Len(objs)
               /\ objs' = RemoveAt(objs, i)
               /\ names' = IF names = <<>> THEN <<>> ELSE RemoveAt(names, i)
               /\ Rec("popindex", [i |-> i - 1], objs[i], {"KF_PopIndex"})
Remove_(x) == /\ Step /\ x \in Range(objs)
              /\ objs' = RemoveAt(objs, IndexOf(objs, x))
              /\ names' = IF names = <<>> THEN <<>> ELSE RemoveAt(names, IndexOf(objs, x))
              /\ Rec("remove", [x |-> x], "none", {})
SetIndex(i, x) == /\ Step /\ ~DictDeclared /\ i \in 1..Len(objs) /\ x \notin Range(objs)
                  /\ objs' = [objs EXCEPT ![i] = x] /\ UNCHANGED names
                  /\ Rec("setindex", [i |-> i - 1, x |-> x], "none", {})
Clear_ == /\ Step /\ objs' = <<>> /\ names' = <<>> /\ Rec("clear", <<>>, "none", {})
\* dict-style
SetKey(k, x) == /\ Step /\ DictDeclared /\ x \notin Range(objs)
                /\ IF k \in KeysOf(names)
                   THEN LET i == CHOOSE j \in 1..Len(names) : names[j][1] = k IN
                        /\ objs' = [objs EXCEPT ![i] = x]
                        /\ names' = [names EXCEPT ![i] = <<k, x>>]
                   ELSE /\ objs' = Append(objs, x) /\ names' = Append(names, <<k, x>>)
                /\ Rec("setkey", [k |-> k, x |-> x], "none", {})
PopKey(k) == /\ Step /\ DictDeclared /\ k \in KeysOf(names)
             /\ LET i == CHOOSE j \in 1..Len(names) : names[j][1] = k IN
                /\ objs' = RemoveAt(objs, i) /\ names' = RemoveAt(names, i)
                /\ Rec("popkey", [k |-> k], Lookup(names, k), {})

Next == \/ \E x \in Objects : Append_(x) \/ Remove_(x)
        \/ \E i \in 0..3, x \in Objects : Insert_(i, x) \/ SetIndex(i, x)
        \/ \E i \in 1..3 : PopIndex(i)
        \/ Clear_
        \/ \E k \in Keys, x \in Objects : SetKey(k, x)
        \/ \E k \in Keys : PopKey(k)

Spec == Init /\ [][Next]_vars

\* C18 as invariants on the spec
ViewsAgree == names = <<>> \/ (Len(names) = Len(objs) /\ ValsOf(names) = objs
                               /\ Cardinality(KeysOf(names)) = Len(names))
Unique == Cardinality(Range(objs)) = Len(objs)
Emit == (RecordHist /\ nops = MaxOps) => PrintT(<<"BEHAVIOUR", ToJson([steps |-> hist, dictdecl |-> DictDeclared])>>)
====
