import sys, json, time, re
sys.path.insert(0,'/repo')
import param, logging
assert param.__file__.startswith('/repo/'), param.__file__
logging.getLogger('param').setLevel(logging.CRITICAL)
OBJ = {1:'o1',2:'o2',3:'o3',4:'o4'}; KEY={1:'k1',2:'k2',3:'k3'}
OPEN_KF = {'KF_PopIndex'}
def load(fn):
    for line in open(fn):
        m = re.match(r'<<"BEHAVIOUR", "(.*)">>$', line.strip())
        yield json.loads(json.loads('"'+m.group(1)+'"'))
def project(p):
    objs=list(p._objects); 
    names=[[k,v] for k,v in p.names.items()]
    rng=list(p.get_range().values())
    view=list(p.objects) if not p.names else list(p.objects.values())
    return objs, names, rng, view
def run(b):
    dictdecl=b['dictdecl']; steps=b['steps']
    o0=steps[0]['obs']
    if dictdecl: objects={KEY[k]:OBJ[v] for k,v in o0['names']}
    else: objects=[OBJ[v] for v in o0['objs']]
    P=type('P',(param.Parameterized,),{'s':param.Selector(objects=objects)})
    p=P.param.s; log=[]
    P.param.watch(lambda e: log.append(1),'s',what='objects',onlychanged=False)
    tags=set()
    for i,st in enumerate(steps[1:],1):
        a=st['act']; n=a['name']; before=len(log); tags|=set(st['kf'])
        try:
            if n=='append': ret=p.objects.append(OBJ[a['x']])
            elif n=='insert': ret=p.objects.insert(a['i'],OBJ[a['x']])
            elif n=='popindex': ret=p.objects.pop(a['i'])
            elif n=='remove': ret=p.objects.remove(OBJ[a['x']])
            elif n=='setindex': p.objects[a['i']]=OBJ[a['x']]; ret=None
            elif n=='clear': ret=p.objects.clear()
            elif n=='setkey': p.objects[KEY[a['k']]]=OBJ[a['x']]; ret=None
            elif n=='popkey': ret=p.objects.pop(KEY[a['k']])
        except Exception as e:
            return ('diverge', i, 'raised %s'%type(e).__name__, tags)
        exp_objs=[OBJ[v] for v in st['obs']['objs']]; exp_names=[[KEY[k],OBJ[v]] for k,v in st['obs']['names']]
        exp_ret=None if st['ret']=='none' else OBJ[st['ret']]
        objs,names,rng,view=project(p)
        if (objs,names)!=(exp_objs,exp_names) or rng!=exp_objs or view!=exp_objs or ret!=exp_ret or len(log)-before!=1:
            return ('diverge', i, dict(exp=(exp_objs,exp_names,exp_ret), got=(objs,names,rng,view,ret,len(log)-before)), tags)
        # membership probe
        for tok in OBJ.values():
            try: P.s=tok; acc=True
            except ValueError: acc=False
            if acc!=(tok in exp_objs) and exp_objs: return ('diverge', i, 'membership %s'%tok, tags)
    return ('ok',None,None,tags)
t=time.time(); n=0; kf=0; viol=[]; 
for fn in sys.argv[1:]:
    for b in load(fn):
        n+=1; r=run(b)
        if r[0]=='diverge':
            if r[3] & OPEN_KF: kf+=1
            else: viol.append((b,r))
print('behaviours',n,'known-finding',kf,'violations',len(viol),'%.1fs'%(time.time()-t))
for b,r in viol[:3]: print(json.dumps(b['steps'][:r[1]+1])[:400], r[1:3])
