CONSTANTS
 N = 3
 AsBuilt = TRUE
 RecordHist = TRUE
 MaxSteps = 10
INIT Init
NEXT Next
CHECK_DEADLOCK FALSE
INVARIANT Emit
