import param, warnings
warnings.simplefilter('ignore')
from param.parameterized import batch_call_watchers, discard_events
class P(param.Parameterized):
    a = param.Integer(default=0)
    b = param.Integer(default=0)
    e = param.Event()
def mk(log,tag): return lambda *ev: log.append((tag,[(e.name,e.old,e.new,e.type) for e in ev]))
log=[]; p=P()
p.param.watch(mk(log,'w_ab'), ['a','b'])
p.param.watch(mk(log,'w_a_all'), ['a'], onlychanged=False, precedence=2)
p.param.watch(mk(log,'w_e'), ['e'])
with batch_call_watchers(p):
    p.a=1
    p.param.trigger('b')
    p.a=2
print('trigger in batch:', log); log.clear()
p.param.trigger('a','e'); print('trigger a,e:', log, 'e=',p.e); log.clear()
p.e=True; print('event set:', log, p.e); log.clear()
with batch_call_watchers(p):
    p.e=True
    print(' in batch e=', p.e)
print('event in batch:', log, p.e); log.clear()
with batch_call_watchers(p):
    p.a=5
    with discard_events(p):
        p.b=7
    p.a=6
print('discard nested:', log, p.a, p.b); log.clear()
with p.param.update(a=10,b=11):
    print(' in update ctx', p.a,p.b, log)
print('after update ctx', p.a, p.b, log); log.clear()
# nested batches
with batch_call_watchers(p):
    with batch_call_watchers(p):
        p.a=20
    print(' after inner exit', log)
print('after outer', log); log.clear()
# update inside callback? queued
q=P(); log2=[]
def cb(*ev):
    log2.append(('cb',[(e.name,e.new) for e in ev], 'b=',q.b))
    if q.b<2: q.b=q.b+1
q.param.watch(cb,['a'],queued=True)
q.param.watch(mk(log2,'wb'),['b'])
q.param.watch(mk(log2,'wa2'),['a'],precedence=5)
q.a=1
print('queued:', log2)
