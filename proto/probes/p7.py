import param, warnings, asyncio
warnings.simplefilter('ignore')
class T(param.Parameterized):
    p = param.Parameter(default=0, allow_refs=True)
async def main(order, plain_at=None):
    loop = asyncio.get_running_loop()
    t = T()
    seen=[]
    t.param.watch(lambda e: seen.append(e.new), 'p')
    futs = {}
    def mk(i):
        f = loop.create_future(); futs[i]=f
        async def co():
            return await f
        return co
    t.p = mk(1)
    await asyncio.sleep(0)
    await asyncio.sleep(0)
    t.p = mk(2)
    await asyncio.sleep(0); await asyncio.sleep(0)
    if plain_at=='before':
        t.p = 'plain'
    for i in order:
        if not futs[i].done(): futs[i].set_result('r%d'%i)
        for _ in range(5): await asyncio.sleep(0)
        if plain_at==('after%d'%i): t.p='plain'
    for _ in range(10): await asyncio.sleep(0)
    return t.p, seen, list(t._param__private.async_refs), list(t._param__private.refs)
for order in ([1,2],[2,1]):
    for plain in (None,'before','after1','after2'):
        print(order, plain, asyncio.run(main(order, plain)))
