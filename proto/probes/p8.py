import param, warnings, asyncio
warnings.simplefilter('ignore')
class T(param.Parameterized):
    p = param.Parameter(default=0, allow_refs=True)
async def main(kind):
    loop = asyncio.get_running_loop()
    t = T(); seen=[]
    t.param.watch(lambda e: seen.append(e.new), 'p')
    f = loop.create_future()
    if kind=='coro':
        async def ref(): return await f
    else:
        async def ref():
            yield 'g0'
            yield await f
    t.p = ref
    for _ in range(5): await asyncio.sleep(0)
    t.p = 'plain'
    for _ in range(5): await asyncio.sleep(0)
    f.set_result('late')
    for _ in range(10): await asyncio.sleep(0)
    return t.p, seen, list(t._param__private.async_refs), list(t._param__private.refs)
print('coro', asyncio.run(main('coro')))
print('agen', asyncio.run(main('agen')))
