import param, warnings, copy, pickle
warnings.simplefilter('ignore')
# C18 pop
class P(param.Parameterized):
    s = param.Selector(objects={'a':1,'b':2,'c':3})
    l = param.Selector(objects=[1,2,3])
r = P.param.s.objects.pop(0)
print('C18 dict pop(0) returned', r, 'names', P.param.s.names, 'objs', P.param.s._objects, P.param.s.get_range())
r = P.param.l.objects.pop(0)
print('C18 list pop(0) returned', r, list(P.param.l.objects))
r= P.param.s.objects.pop('c') if 'c' in P.param.s.names else None
print('pop key', r)
# C09 reflected shifts
from param import rx
x = rx(2)
for expr in ['1 << x', '8 >> x', 'x << 1', '1 - x', '2 ** x', 'divmod(7,x)', '7 // x', '7 % x', '[1,2,3] @ x']:
    try:
        print(expr, '=', eval(expr).rx.value)
    except Exception as e:
        print(expr, 'ERR', type(e).__name__, e)
# C13
class A(param.Parameterized):
    x = param.Number(1)
class B(A): pass
_ = list(B.param)  # populate cache
B.x = 5
import inspect
print('C13 B.param[x] is static attr:', B.param['x'] is inspect.getattr_static(B,'x'), B.param['x'].default, B.x, A.x)
class A2(param.Parameterized):
    x = param.Number(1)
class B2(A2): pass
_ = list(B2.param)
A2.param.add_parameter('y', param.Number(3))
print('C13 add_parameter on parent: y in B2.param', 'y' in B2.param, hasattr(B2,'y'))
