import param, numbergen, warnings
warnings.simplefilter('ignore')
import logging; logging.getLogger('param').setLevel(logging.ERROR)
param.Dynamic.time_dependent = True
t = param.Dynamic.time_fn
class P(param.Parameterized):
    x = param.Number(default=numbergen.UniformRandom(name='g1', seed=3, time_dependent=True))
    y = param.Number(default=0)
p1=P(); p2=P()
def at(tt): t(tt); return p1.x
vals={}
for tt in [0,1,2,1,0,5,-1,0,-1,3]:
    v=at(tt); 
    if tt in vals and vals[tt]!=v: print('MISMATCH at',tt, vals[tt], v)
    vals.setdefault(tt,v)
    print(tt, v, 'again', p1.x, 'inspect', p1.param.inspect_value('x'), 'p2', p2.x)
t(7); before=t()
with t as tc:
    tc(100); a=p1.x
    with tc as t2:
        t2(200); b=p1.x
    print('inner exit time', t())
print('time restored', t()==before, t())
g=numbergen.UniformRandom(name='g2', seed=1, time_dependent=True)
p1.y=g
t(3); v3=p1.y; p1.param._state_push(); t(4); v4=p1.y; p1.param._state_pop(); print('after pop inspect', p1.param.inspect_value('y')==v3, 'time', t()); print('read at 4 after pop', p1.y==v4)
