import param, warnings
warnings.simplefilter('ignore')
# C06 inheritance of depends
log=[]
class A(param.Parameterized):
    x = param.Integer(0); y=param.Integer(0)
    @param.depends('x', watch=True)
    def m(self): log.append('A.m')
    @param.depends('m', 'y', watch=True)
    def n(self): log.append('A.n')
class B(A):
    @param.depends('y', watch=True)
    def m(self): log.append('B.m')
class C(A):
    def m(self): log.append('C.m(undecorated)')
class D(B, C): pass
for K in (A,B,C,D):
    log.clear(); o=K(); o.x=1; l1=list(log); log.clear(); o.y=1; l2=list(log); log.clear()
    o.param.update(x=2,y=2); l3=list(log)
    print(K.__name__, 'x->',l1,' y->',l2, ' update(x,y)->', l3, [ (d[0]) for d in K.param._depends['watch']])
# slot dependency
class E(param.Parameterized):
    p = param.Number(1, bounds=(0,5))
    @param.depends('p:bounds', watch=True)
    def mb(self): log.append('mb')
    @param.depends('p', watch=True, on_init=True)
    def mi(self): log.append('mi')
log.clear(); e=E(); print('on_init', log); log.clear()
e.param.p.bounds=(0,6); print('slot set', log); log.clear()
e.param.p.bounds=(0,6); print('slot same', log); log.clear()
E.param.p.bounds=(0,7); print('class slot set (inst has own copy)', log); log.clear()
e2=E(); log.clear(); E.param.p.bounds=(0,8); print('class slot set, e2 no copy yet:', log)
