import param, warnings
warnings.simplefilter('ignore')
class Q(param.Parameterized):
    a = param.Number(1)
class P(param.Parameterized):
    n = param.Number(0.0)
    s = param.String('x')
    l = param.List([])
    t = param.Tuple((1,2))
    q = param.ClassSelector(class_=Q, default=None)
    d = param.Dict({})
class R(param.Parameterized):
    a = param.Number(1); b=param.String('b')
    def __init__(self, a, b='b', **kw):
        super().__init__(a=a, b=b, **kw)
def rt(o):
    txt = o.param.pprint()
    try:
        o2 = eval(txt)
    except Exception as e:
        return txt, 'EVAL ERR %s %s'%(type(e).__name__, e)
    diffs = {k:(v, getattr(o2,k)) for k,v in o.param.values().items() if k!='name' and repr(v)!=repr(getattr(o2,k))}
    return txt, diffs
for o in [P(n=float('inf')), P(n=-1.5), P(n=float('nan')), P(s="it's \"q\"\n\\"), P(l=[1,[2,'a']], t=(3,4)), P(q=Q(a=5)), P(d={'k':[1]}), P(name='explicit'), R(2), R(2,b='z'), R(a=1, b='b', name='nm'), P(l=[Q(a=3)])]:
    print(rt(o))
import param.parameterized as pp
print(pp.script_repr(P(n=2, q=Q(a=2))))
