import param, warnings, copy, pickle
warnings.simplefilter('ignore')
class Sub(param.Parameterized):
    x = param.Integer(0)
class Top(param.Parameterized):
    a = param.ClassSelector(class_=Sub, allow_None=True)
    n = param.Integer(0)
    @param.depends('a.x', watch=True)
    def m(self):
        self.log.append(('m', self.name, self.a.x))
    @param.depends('n', watch=True)
    def k(self):
        self.log.append(('k', self.name, self.n))
    def __init__(self, **kw):
        self.log=[]
        super().__init__(**kw)
t=Top(a=Sub(x=1), name='orig')
for how in ('deepcopy','pickle'):
    try:
        c = copy.deepcopy(t) if how=='deepcopy' else pickle.loads(pickle.dumps(t))
    except Exception as e:
        print(how,'FAILED', type(e).__name__, e); continue
    with param.edit_constant(c): c.name='copy'
    c.log.clear(); t.log.clear()
    c.a.x = 7
    print(how, 'set copy.a.x: copy log', c.log, 'orig log', t.log, 'orig.a.x', t.a.x)
    c.log.clear(); t.log.clear()
    t.a.x = 8
    print(how, 'set orig.a.x: copy log', c.log, 'orig log', t.log, 'copy.a.x', c.a.x)
    c.log.clear(); t.log.clear()
    c.n=3
    print(how, 'set copy.n: copy log', c.log, 'orig log', t.log)
    c.log.clear(); t.log.clear()
    c.a = Sub(x=100)
    print(how, 'replace copy.a: copy log', c.log, 'orig log', t.log)
