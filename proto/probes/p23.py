import sys; sys.path.insert(0,'/repo')
import param, warnings
from param.parameterized import batch_call_watchers
warnings.simplefilter('ignore')
class P(param.Parameterized):
    a = param.Integer(0); b = param.Integer(0)
p=P(); log=[]
def mk(tag): return lambda *ev: log.append((tag,[(e.name,e.old,e.new,e.type) for e in ev]))
p.param.watch(mk('w_ab_changed'), ['a','b'])                       # onlychanged=True
p.param.watch(mk('w_b_all'), ['b'], onlychanged=False)             # fires on same-value set
with batch_call_watchers(p):
    p.a = 1        # qualifies for w_ab_changed
    p.b = 0        # same value: qualifies ONLY for w_b_all
print(log)
log.clear()
# watch_values (kwargs mode) same scenario
q=P(); 
q.param.watch_values(lambda **kw: log.append(('wv',kw)), ['a','b'])
q.param.watch(mk('w_b_all'), ['b'], onlychanged=False)
q.param.update(a=1,b=0)
print(log)
