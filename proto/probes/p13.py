import param, warnings
warnings.simplefilter('ignore')
def tryp(label, f):
    try:
        r=f(); print(label,'OK', r)
    except Exception as e: print(label,'ERR',type(e).__name__, str(e)[:120])
# C11
class A(param.Parameterized):
    x = param.Number(1, bounds=(0,5), doc='dA')
class B(A):
    x = param.Number(2)
class C(A):
    x = param.Number(doc='dC', bounds=(0,10))
class D(B,C):
    x = param.Number(precedence=1)
print('D.x', D.param.x.default, D.param.x.bounds, D.param.x.doc)
class E(C,B):
    x = param.Number(precedence=1)
print('E.x', E.param.x.default, E.param.x.bounds, E.param.x.doc)
class F(A): pass
class G(F):
    x = param.Number(4)
print('G.x', G.param.x.default, G.param.x.bounds)
def mk():
    class H(A):
        x = param.Number(7)
    return H
tryp('default conflicts inherited bounds', mk)
def mk2():
    class H(A):
        x = param.Number(bounds=(2,3))
    return H
tryp('bounds conflict inherited default', mk2)
def mk3():
    class H(A):
        x = param.Integer()
    return H.param.x.default
tryp('type change Number->Integer inherits default 1', mk3)
class A2(param.Parameterized):
    x = param.Number(1.5)
def mk4():
    class H(A2):
        x = param.Integer()
    return H.param.x.default
tryp('type change with float default', mk4)
class A3(param.Parameterized):
    x = param.Number(None, bounds=(0,5), allow_None=True)
def mk5():
    class H(A3):
        x = param.Number(bounds=(1,2))
    return (H.param.x.default, H.param.x.allow_None)
tryp('None default merged', mk5)
def mk6():
    class H(A):
        x = param.Number(allow_None=True)
    class I(H):
        x = param.Number()
    return (H.param.x.allow_None, I.param.x.allow_None)
tryp('allow_None recomputed', mk6)
class A4(param.Parameterized):
    l = param.List([1], instantiate=True)
class B4(A4):
    l = param.List([2], instantiate=False)
print('instantiate inherited', B4.param.l.instantiate)
tryp('add_parameter invalid merged', lambda: A.param.add_parameter('x', param.Number(9)))
print(A.param.x.default, A.x)
