import sys; sys.path.insert(0,'/repo')
import param, warnings, itertools, random
from param import rx, bind
warnings.simplefilter('ignore')
class P(param.Parameterized):
    a = param.Integer(1); b = param.Integer(2); c=param.Boolean(True)
def check(label, build, updates):
    p=P(); r1=rx(10); r2=rx(3)
    env={'p':p,'r1':r1,'r2':r2}
    expr, plain = build(env)
    bad=[]
    for step,(who,val,read) in enumerate(updates):
        if who=='a': p.a=val
        elif who=='b': p.b=val
        elif who=='c': p.c=val
        elif who=='r1': r1.rx.value=val
        elif who=='r2': r2.rx.value=val
        if read:
            try: got=expr.rx.value
            except Exception as e: got=('ERR',type(e).__name__)
            try: exp=plain(p.a,p.b,p.c,r1.rx.value,r2.rx.value)
            except Exception as e: exp=('ERR',type(e).__name__)
            if got!=exp: bad.append((step,who,val,got,exp))
    print(label, 'OK' if not bad else 'STALE %s'%bad[:3])
ups=[('a',5,True),('r1',7,False),('b',0,True),('r2',4,True),('b',3,True),('c',False,True),('a',2,False),('c',True,True),('r1',1,True)]
check('r1+a', lambda e:(e['r1']+e['p'].param.a, lambda a,b,c,r1,r2:r1+a), ups)
check('shared sub', lambda e:((lambda s:(s*s)+s)(e['r1']+e['p'].param.a), lambda a,b,c,r1,r2:(r1+a)*(r1+a)+(r1+a)), ups)
check('root as arg', lambda e:(e['r1']+e['r1'], lambda a,b,c,r1,r2:r1+r1), ups)
check('root as arg2', lambda e:((e['r1']*2).rx.pipe(lambda x,y:x-y, e['r1']), lambda a,b,c,r1,r2:r1*2-r1), ups)
check('a//b err', lambda e:(e['p'].param.a.rx()//e['p'].param.b, lambda a,b,c,r1,r2:a//b), ups)
check('where', lambda e:(e['p'].param.c.rx.where(e['r1'], e['r2']), lambda a,b,c,r1,r2:r1 if c else r2), ups)
check('where nested', lambda e:(e['p'].param.c.rx.where(e['r1']+e['p'].param.a, e['r2']).rx()+1, lambda a,b,c,r1,r2:(r1+a if c else r2)+1), ups)
check('where of rx cond', lambda e:((e['r1']>5).rx.where(e['p'].param.a, e['p'].param.b), lambda a,b,c,r1,r2:a if r1>5 else b), ups)
check('bind', lambda e:(rx(bind(lambda x,y:x*y, e['p'].param.a, e['r1']))+e['r2'], lambda a,b,c,r1,r2:a*r1+r2), ups)
check('bind nested', lambda e:(rx(bind(lambda x,y:x*y, bind(lambda q:q+1, e['p'].param.a), e['r1'])), lambda a,b,c,r1,r2:(a+1)*r1), ups)
check('and_/or_', lambda e:(e['p'].param.c.rx.and_(e['r1']).rx.or_(e['p'].param.b), lambda a,b,c,r1,r2:(c and r1) or b), ups)
check('index', lambda e:(rx([1,2,3,4,5,6,7,8,9,10,11])[e['p'].param.b], lambda a,b,c,r1,r2:[1,2,3,4,5,6,7,8,9,10,11][b]), ups)
check('method', lambda e:(e['r1'].rx.pipe(str).zfill(e['p'].param.a), lambda a,b,c,r1,r2:str(r1).zfill(a)), ups)
check('len/in', lambda e:(e['r1'].rx.in_([1,7,e['p'].param.a]), lambda a,b,c,r1,r2: r1 in [1,7,a]), ups)
check('map', lambda e:(rx([1,2,3]).rx.map(lambda v,k:v*k, e['p'].param.a), lambda a,b,c,r1,r2:[v*a for v in [1,2,3]]), ups)
check('is_/not_', lambda e:(e['p'].param.c.rx.not_().rx.is_(False), lambda a,b,c,r1,r2:(not c) is False), ups)
check('where both const', lambda e:(e['p'].param.c.rx.where(1, 2), lambda a,b,c,r1,r2:1 if c else 2), ups)
check('where x is expr of cond param', lambda e:(e['p'].param.c.rx.where(e['p'].param.c.rx.pipe(int)+e['p'].param.a, e['r2']), lambda a,b,c,r1,r2:(int(c)+a) if c else r2), ups)
