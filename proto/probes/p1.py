import param, warnings
warnings.simplefilter('ignore')
log=[]
# C02: invalid-valued ref on allow_refs param
class S(param.Parameterized):
    v = param.Parameter(default=1)
class T(param.Parameterized):
    n = param.Number(default=0, bounds=(0,10), allow_refs=True)
    m = param.Number(default=0, allow_refs=True)
s=S(v=50); s2=S(v=3)
t=T(n=s2.param.v)
print('linked', t.n, t._param__private.refs.keys())
try:
    t.n = s.param.v
except Exception as e:
    print('rejected', type(e).__name__, e)
print('after reject: n=',t.n, 'refs->', {k:(v.owner.name,v.name) for k,v in t._param__private.refs.items()})
s2.v=4
print('old source update -> n=',t.n)
s.v=5
print('new source update -> n=',t.n)
print('watchers on s', s._param__private.watchers)
