import param, warnings
warnings.simplefilter('ignore')
class S(param.Parameterized):
    v = param.Parameter(default=1)
class T(param.Parameterized):
    p = param.Parameter(default=0, allow_refs=True)
    q = param.Parameter(default=0, allow_refs=True, nested_refs=True)
def nw(o): return {k:len(v.get('value',[])) for k,v in o._param__private.watchers.items()}
s1=S(v=1); s2=S(v=2); s3=S(v=3)
# nested link made in constructor, then another link made later on p
t=T(q=[s1.param.v, 10])
print('ctor nested:', t.q, nw(s1))
t.p = s2.param.v
print('after later link p: p=',t.p, 'watchers s1', nw(s1), 's2', nw(s2))
s1.v=11
print('nested src update -> q=', t.q)
s2.v=22
print('p src update -> p=', t.p)
# link made later for nested
t2=T()
t2.q=[s1.param.v, 5]
print('later nested link q=', t2.q, nw(s1)); s1.v=12; print(' after update', t2.q)
# override
t3=T(p=s3.param.v); print('t3.p', t3.p, nw(s3)); t3.p=99; s3.v=33; print('after override and src update', t3.p, nw(s3))
# relink
t4=T(p=s3.param.v); t4.p=s2.param.v; s3.v=34; print('relink: p', t4.p, 'old src watchers', nw(s3), 'new', nw(s2)); s2.v=23; print(t4.p)
# update context
t5=T(p=s3.param.v)
with t5.param.update(p=5):
    print('in ctx', t5.p); 
print('after ctx', t5.p, t5._param__private.refs); s3.v=35; print('src update after ctx', t5.p)
