import sys; sys.path.insert(0,'/repo')
import param, warnings
warnings.simplefilter('ignore')
class A(param.Parameterized):
    s = param.Selector(objects=[1,2,3])
    n = param.Number(1, bounds=(0,10))
    l = param.List([1])
    sh = param.Parameter([1])
    k = param.Parameter([1], constant=True)
    pi = param.Number(1, bounds=(0,10), per_instance=False)
class B(A): pass
a1=A(); a2=A(); b=B()
a1.param.s.objects.append(4)
print('inst objects append:', list(a1.param.s.objects), list(a2.param.s.objects), list(A.param.s.objects), list(B.param.s.objects))
a1.param.n.bounds=(0,5)
print('inst bounds:', a1.param.n.bounds, a2.param.n.bounds, A.param.n.bounds)
a1.param.pi.bounds=(0,5)
print('per_instance False bounds:', a1.param.pi.bounds, a2.param.pi.bounds, A.param.pi.bounds)
a1.param.n.constant=True
print('inst constant:', a1.param.n.constant, a2.param.n.constant, A.param.n.constant)
# order dependence: class changed after per-instance copy exists
A.n = 3
print('class default change: a1.n(copy exists)', a1.n, 'a2.n', a2.n, 'b.n', b.n, 'a1.param.n.default', a1.param.n.default, A.param.n.default)
a3=A()
A.param.n.default = 4
print('param.default set:', a1.n, a3.n, A.n)
# constant keeps object
k0 = a1.k; A.k=[2]; print('const keeps:', a1.k is k0, a1.k, A().k)
# instantiate False shared by identity
print('shared identity', a1.sh is A.sh, a2.sh is a1.sh)
A.sh=[5]; print('after class set shared:', a1.sh, a2.sh)
# subclass set then parent set
B.n=7; A.n=8; print('sub own copy', B.n, A.n, b.n, B().n)
# in-place mutation of instantiate=True value
a1.l.append(9); print(a1.l, a2.l, A.l)
# instance dict values for constant: set class-level on subclass
B.k=[3]; print('b.k after B.k set', b.k, B().k)
