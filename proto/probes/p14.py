import param, warnings
warnings.simplefilter('ignore')
def tryp(label, f):
    try:
        r=f(); print(label,'OK', r)
    except Exception as e: print(label,'ERR',type(e).__name__, str(e)[:120])
class A(param.Parameterized):
    c = param.List([1], constant=True)
    r = param.Number(3, readonly=True)
    v = param.Number(1)
    li = param.List([1,2])             # instantiate True
    ls = param.Parameter([1,2])        # instantiate False shared
class B(A): pass
a=A(); b=B()
tryp('set const', lambda: setattr(a,'c',[2]))
tryp('set const same obj', lambda: setattr(a,'c',a.c))
tryp('set readonly inst', lambda: setattr(a,'r',4))
tryp('set readonly class', lambda: setattr(A,'r',4))
tryp('ctor const', lambda: A(c=[5]).c)
tryp('ctor readonly', lambda: A(r=5).r)
tryp('update const', lambda: a.param.update(c=[3]))
old=a.c
A.c=[9]; print('class set const: a.c', a.c, 'is old', a.c is old, 'A.c', A.c, 'B.c', B.c, 'new inst', A().c)
B.c=[7]; print('subclass set const: b.c', b.c, B.c, A.c, B.param.c.constant, B.param['c'] is A.param['c'])
tryp('b set const after subclass set', lambda: setattr(b,'c',[1]))
with param.edit_constant(a):
    a.c=[100]
print('after edit_constant', a.c, a.param.c.constant, A.param.c.constant)
try:
    with param.edit_constant(a):
        a.c=[101]; raise KeyError
except KeyError: pass
print('after failing edit_constant', a.c, a.param.c.constant, A.param.c.constant)
tryp('set const after', lambda: setattr(a,'c',[2]))
tryp('name const', lambda: setattr(a,'name','zzz'))
# nested edit_constant
with param.edit_constant(a):
    with param.edit_constant(a):
        a.c=[102]
    print(' inner exited: constant flags', a.param.c.constant, A.param.c.constant)
    tryp(' set in outer after inner exit', lambda: setattr(a,'c',[103]))
print('after nested', a.param.c.constant, A.param.c.constant)
# other instances during edit_constant
a2=A()
with param.edit_constant(a):
    tryp('other instance set const during edit_constant(a)', lambda: setattr(a2,'c',[55]))
print(a2.c)
# C12
a3=A(); a4=A()
a3.li.append(9); print('instantiate True private:', a3.li, a4.li, A.li)
a3.ls.append(9); print('instantiate False shared:', a3.ls, a4.ls, A.ls, a3.ls is A.ls)
A.v=10; print('follow class default:', a3.v); a3.v=5; A.v=11; print('own value kept:', a3.v, a4.v)
a3.param.v.bounds=(0,100); print('inst bounds', a3.param.v.bounds, a4.param.v.bounds, A.param.v.bounds)
A.param.v.bounds=(0,50); print('class bounds after', a3.param.v.bounds, a4.param.v.bounds, A().param.v.bounds, B.param.v.bounds)
