import sys; sys.path.insert(0,'/repo')
import param, warnings, json, datetime as dt
warnings.simplefilter('ignore')
def tryp(label, f):
    try: r=f(); print(label,'OK', r)
    except Exception as e: print(label,'ERR',type(e).__name__, str(e)[:100])
# --- C03 class-level and slot-level
class P(param.Parameterized):
    a = param.Integer(0, bounds=(0,9)); b=param.Integer(0)
log=[]
def mk(t): return lambda *ev: log.append((t,[(e.name,e.old,e.new,e.type,e.what) for e in ev]))
P.param.watch(mk('c2'),['a'],precedence=2); P.param.watch(mk('c0'),['a'],precedence=0); P.param.watch(mk('c0b'),['a','b'],precedence=0)
P.a=1; print('class set:', log); log.clear()
p=P(); p.a=2; print('inst set does not call class watchers:', log); log.clear()
p.param.watch(mk('s1'),['a'],what='bounds',precedence=3); p.param.watch(mk('s0'),['a'],what='bounds',precedence=0)
p.param.a.bounds=(0,5); print('slot set order:', [l[0] for l in log], log[0][1]); log.clear()
p.param.a.bounds=(0,5); print('slot same:', log); log.clear()
P.param.watch(mk('cs'),['a'],what='bounds'); P.param.a.bounds=(0,7); print('class slot:', log); log.clear()
# --- C14 histories
class A(param.Parameterized):
    c = param.Parameter([1], constant=True)
class B(A): pass
b=B(); _=b.param.c   # per-instance copy created earlier
B.c=[2]
tryp('after subclass class-set, inst set const', lambda: setattr(b,'c',[3]))
b2=B(); tryp('new inst after subclass set', lambda: setattr(b2,'c',[3])); print(b2.c, B.c, B.param.c.constant, type(B).__dict__ is None)
with param.edit_constant(b2): b2.c=[9]
tryp('after edit_constant', lambda: setattr(b2,'c',[10])); print(b2.c, B.param.c.constant, A.param.c.constant, b2.param.c.constant)
tryp('update route', lambda: b2.param.update(c=[11]))
# --- C15 class-level + subset + per-value
class S(param.Parameterized):
    t = param.Tuple((1,2)); d = param.Date(dt.datetime(2020,1,1,1,1,1,5)); n=param.Number(None, allow_None=True); r=param.Range(None)
print(S.param.serialize_parameters(subset=['t','d','n','r']))
print(S.param.deserialize_parameters(S.param.serialize_parameters(subset=['t','d','n','r']), subset=['t','n']))
print(S.param.serialize_value('t'), S.param.deserialize_value('t', S.param.serialize_value('t')), S.param.deserialize_value('d', S.param.serialize_value('d')))
# --- C06 function form
class Src(param.Parameterized):
    x = param.Integer(0); y=param.Integer(0)
s=Src(); calls=[]
@param.depends(s.param.x, s.param.y, watch=True)
def f(x,y): calls.append((x,y))
s.x=1; s.param.update(x=2,y=2); s.y=2; print('fn form calls', calls)
