import param, numbergen, warnings, logging
warnings.simplefilter('ignore'); logging.getLogger('param').setLevel(logging.ERROR)
param.Dynamic.time_dependent = True
t = param.Dynamic.time_fn
class P(param.Parameterized):
    x = param.Number(default=numbergen.UniformRandom(name='g1', seed=3, time_dependent=True))
p=P(); t(-1)
try: print('first read at -1:', p.x)
except Exception as e: print('ERR', type(e).__name__, e)
print('inspect', p.param.inspect_value('x'))
t(0); print(p.x); t(-1); print('second visit at -1:', p.x)
