import sys; sys.path.insert(0,'/repo')
import param, warnings
assert param.__file__.startswith('/repo/')
warnings.simplefilter('ignore')
class P(param.Parameterized):
    a = param.Integer(0); b = param.Integer(0); e = param.Event()
p=P(); log=[]
def cb(*ev):
    p.b = p.b+1
    raise RuntimeError('boom')
p.param.watch(cb, ['a'], queued=True)
p.param.watch(lambda *ev: log.append([(e.name,e.old,e.new) for e in ev]), ['b'])
try: p.a=1
except RuntimeError: print('raised')
print('after fault: b=',p.b,'log',log,'events queued', [(e.name,e.old,e.new) for e in p.param._events], 'BATCH', p.param._BATCH_WATCH)
p2=P(); log2=[]
p2.param.watch(lambda *ev: log2.append([(e.name,e.old,e.new) for e in ev]), ['e'])
p.param.watch(lambda *ev: log.append([(e.name,e.old,e.new) for e in ev]), ['e'])
p.e=True
print('unrelated later assignment delivers stale:', log)
# Event param + raising watcher
q=P()
def bad(*ev): raise RuntimeError('x')
w=q.param.watch(bad,['e'])
try: q.e=True
except RuntimeError: pass
print('Event value after raising watcher:', q.e)
q.param.unwatch(w)
# failing update with event
r=P(); r.param.watch(bad,['a'])
try: r.param.update(a=1, e=True)
except RuntimeError: pass
print('after failing update: e=', r.e, 'mode', r.param.e._mode); r.e=True; print('then set e=True ->', r.e)
