import param, warnings
warnings.simplefilter('ignore')
class P(param.Parameterized):
    a = param.Integer(default=0, bounds=(0,10))
    b = param.Integer(default=0, bounds=(0,10))
    e = param.Event()
log=[]
p=P()
p.param.watch(lambda *ev: log.append([(e.name,e.old,e.new,e.type) for e in ev]), ['a','b'])
# update fails half-way
try:
    p.param.update(a=1, b=99)
except ValueError as ex: print('rejected')
print('after failed update: a=',p.a,'log=',log, 'BATCH', p.param._BATCH_WATCH, 'events', p.param._events)
p.b=2
print('after p.b=2 log=',log)
log.clear()
# failing update inside a batch
p=P(); p.param.watch(lambda *ev: log.append([(e.name,e.old,e.new,e.type) for e in ev]), ['a','b'])
with param.parameterized.batch_call_watchers(p):
    try: p.param.update(a=1,b=99)
    except ValueError: pass
    print('in batch after fail BATCH=',p.param._BATCH_WATCH)
    p.b=3
    print('in batch log=',log)
print('after batch log=',log)
log.clear()
# watcher raising in trigger
p=P()
def bad(*ev): raise RuntimeError('boom')
w=p.param.watch(bad,['a'])
try: p.param.trigger('a')
except RuntimeError: print('trigger raised')
print('TRIGGER flag', p.param._TRIGGER, 'BATCH', p.param._BATCH_WATCH, p.param._events)
p.param.unwatch(w)
p.param.watch(lambda *ev: log.append([(e.name,e.old,e.new,e.type) for e in ev]), ['a'])
p.a=0
print('same-value set after failed trigger: log=',log)
