import sys; sys.path.insert(0,'/repo')
import param, warnings
from param import rx, bind
warnings.simplefilter('ignore')
class P(param.Parameterized):
    a = param.Integer(1); c=param.Boolean(True)
p=P(); r1=rx(10); r2=rx(3)
w = p.param.c.rx.where(r1, r2)      # bound function
wrx = rx(w)
other = r2 + wrx                     # where-result used as an ARGUMENT
chain = wrx + 1                      # where-result used as pipeline ROOT
print('init', other.rx.value, chain.rx.value)
r1.rx.value = 20
print('after r1=20: other', other.rx.value, 'expected', 3+20, '| chain', chain.rx.value, 'expected', 21)
seen=[]
other2 = (r2 * 1).rx.pipe(lambda x,y: x+y, wrx)
other2.rx.watch(lambda v: seen.append(v))
r1.rx.value = 30
print('watch seen', seen, 'expected [33]', other2.rx.value)
# nested where: where inside where
w2 = p.param.c.rx.where(rx(w), 0)
x = rx(w2)
print('nested', x.rx.value); r1.rx.value=40; print('nested after r1=40', x.rx.value, 'expected 40')
# where result referenced by a Parameter with allow_refs
class T(param.Parameterized):
    v = param.Parameter(allow_refs=True)
t=T(v=wrx)
r1.rx.value=50
print('ref target', t.v, 'expected 50')
