import sys; sys.path.insert(0,'/repo')
import param, warnings
warnings.simplefilter('ignore')
class Sub(param.Parameterized):
    x = param.Integer(0); y=param.Integer(0)
class Top(param.Parameterized):
    a = param.ClassSelector(class_=Sub, allow_None=True)
    c = param.ClassSelector(class_=Sub, allow_None=True)
    @param.depends('a.x','c.x', watch=True)
    def m(self): log.append(('m', self.a.x if self.a else None, self.c.x if self.c else None))
log=[]
def nw(o): return {k:len(v.get('value',[])) for k,v in o._param__private.watchers.items()}
s1=Sub(x=1); s2=Sub(x=2); s3=Sub(x=1)
t=Top(a=s1,c=s2)
print('watchers s1',nw(s1),'s2',nw(s2),'t',nw(t))
t.a = s3    # equal x: no fire expected; watchers on c.x must survive
print('after replacing a: log',log,'watchers s2',nw(s2),'s3',nw(s3),'s1',nw(s1),'t',nw(t))
s2.x = 5
print('set c.x on still-attached s2 -> expected one call:', log)
t.c.x = 6; print(log)
# depth-2
class Mid(param.Parameterized):
    b = param.ClassSelector(class_=Sub, allow_None=True)
class Top2(param.Parameterized):
    a = param.ClassSelector(class_=Mid, allow_None=True)
    @param.depends('a.b.x', watch=True)
    def m(self): log2.append(self.a.b.x if self.a and self.a.b else None)
log2=[]
m1=Mid(b=Sub(x=1)); t2=Top2(a=m1)
old=m1.b; m1.b=Sub(x=2); print('replace mid-level b (x differs):', log2)
old.x=9; print('detached leaf set:', log2, nw(old))
m1.b.x=3; print('attached leaf set:', log2)
m2=Mid(b=Sub(x=3)); t2.a=m2; print('replace a with equal leaf:', log2, 'watchers m1', nw(m1), 'm1.b', nw(m1.b))
m1.b.x=100; print('detached deep leaf set:', log2)
m2.b=Sub(x=4); print('new mid replace b:', log2)
