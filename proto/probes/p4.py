import param, warnings, copy, pickle
warnings.simplefilter('ignore')
# C07: several deps through the same sub-object
class Sub(param.Parameterized):
    x = param.Integer(0)
    y = param.Integer(0)
class Top(param.Parameterized):
    a = param.ClassSelector(class_=Sub, allow_None=True)
    calls = 0
    @param.depends('a.x','a.y', watch=True)
    def m(self):
        type(self).log.append((self.a.x if self.a else None, self.a.y if self.a else None))
Top.log=[]
s1=Sub(x=1,y=1); s2=Sub(x=1,y=2)
t=Top(a=s1)
t.a = s2   # y differs, x same -> should fire exactly once
print('C07 replace with differing y only:', Top.log)
Top.log.clear()
s1.x=9; s1.y=9
print('C07 detached obj set:', Top.log, 'watchers left on s1:', s1._param__private.watchers)
Top.log.clear()
s2.x=5
print('C07 leaf on attached:', Top.log)
Top.log.clear()
s3=Sub(x=5,y=2)
t.a=s3
print('C07 replace with equal values (should not fire):', Top.log)
Top.log.clear()
t.a=None
print('C07 detach to None:', Top.log, 'watchers on s3', s3._param__private.watchers)
